#!/usr/bin/env python3
"""Regenerates the table of DESIGN.md section 5.21 from evidence/*.json (quick tier, as committed)
and docs/thorough_runs.json (written by bin/thorough-all)."""
import json, glob, os, re
p = '/verif/DESIGN.md'
s = open(p).read()
i = s.find("| prop | scenarios (quick; thorough adds depth)")
if i < 0:
    i = s.index("| prop | scenarios of the quick tier (executions each)")
j = s.index("\n\n", i)
thor = {}
if os.path.exists('/verif/docs/thorough_runs.json'):
    thor = json.load(open('/verif/docs/thorough_runs.json'))
def sci(n):
    if n < 100000:
        return str(n)
    e = len(str(n)) - 1
    return "%.1f·10^%d" % (n / 10 ** e, e)
rows = ["| prop | scenarios of the quick tier (executions each) | quick: executions / cases / wall | thorough: cases / wall |", "|---|---|---|---|"]
for f in sorted(glob.glob('/verif/evidence/C*.json')):
    e = json.load(open(f))
    c = e['coverage']
    scen = "; ".join("%s (%s)" % (x['name'], sci(x['executions'])) for x in c.get('scenarios', []))
    t = thor.get(e['property_id'])
    tcol = "%s / %.0f s%s" % (sci(t['evaluations']), t['wall_s'], "" if t.get('exhaustive') else " (budget reached)") if t else "-"
    rows.append("| %s | %s | %s / %s / %.0f s | %s |" % (e['property_id'], scen, sci(c['executions']), sci(c['evaluations']), e['wall_s'], tcol))
s = s[:i] + "\n".join(rows) + s[j:]
open(p, 'w').write(s)
print("5.21 regenerated for", len(rows) - 2, "properties")
