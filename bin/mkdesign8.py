#!/usr/bin/env python3
"""Regenerates section 8 of DESIGN.md from seeded/*/meta.json and mutants/RESULTS.txt."""
import json,glob,os,re
p='/verif/DESIGN.md'
s=open(p).read()
i=s.index("## 8. Showing that the checks can fail")
j=s.index("## 9. Log of false alarms and corrections")
for _m in ("### 8.3 Syntactic mutation campaign", "### 8.4 Changes that keep the properties"):
    if _m in s:
        j=min(j, s.index(_m))
KEEP_TAIL = j != s.index("## 9. Log of false alarms and corrections")
def rows(rnd):
    out=[]
    for d in sorted(x for x in glob.glob('/verif/seeded/*') if os.path.isdir(x)):
        k=os.path.basename(d)
        mm=re.search(r'-r(\d+)-',k)
        if (int(mm.group(1)) if mm else 1)!=rnd: continue
        m=json.load(open(d+'/meta.json'))
        clause=''
        if m.get('violated_clauses'):
            mm=re.search(r'violation in ([^,]+), clause ([^ ]+)',m['violated_clauses'][0])
            clause=mm.group(1)+' / '+mm.group(2)
        extra=''
        if m.get('initially_missed'): extra=' — **missed at first**; '+m['strengthening']
        if m.get('origin'): extra=(' — **missed at first**; ' if m['origin'].startswith('NOT ADOPTED') else ' — ')+m['origin']
        out.append('| %s | %s | %s%s |'%(k,m['property'],clause,extra))
    return out
r1,r2,r3,r4,r5,r6,r7,r8,r9=[rows(i) for i in range(1,10)]
r11=rows(11); n11,m11=nm(r11) if False else (len(r11),sum('missed at first' in x for x in r11))
r12=rows(12); n12,m12=len(r12),sum('missed at first' in x for x in r12)
r13=rows(13); n13,m13=len(r13),sum('missed at first' in x for x in r13)
r15=rows(15); n15,m15=len(r15),sum('missed at first' in x for x in r15)
r16=rows(16); n16,m16=len(r16),sum('missed at first' in x for x in r16)
r17=rows(17); n17,m17=len(r17),sum('missed at first' in x for x in r17)
r18=rows(18); n18,m18=len(r18),sum('missed at first' in x for x in r18)
r19=rows(19); n19,m19=len(r19),sum('missed at first' in x for x in r19)
r20=rows(20); n20,m20=len(r20),sum('missed at first' in x for x in r20)
r21=rows(21); n21,m21=len(r21),sum('missed at first' in x for x in r21)
r22=rows(22); n22,m22=len(r22),sum('missed at first' in x for x in r22)
r23=rows(23); n23,m23=len(r23),sum('missed at first' in x for x in r23)
r24=rows(24); n24,m24=len(r24),sum('missed at first' in x for x in r24)
r25=rows(25); n25,m25=len(r25),sum('missed at first' in x for x in r25)
r26=rows(26); n26,m26=len(r26),sum('missed at first' in x for x in r26)
r27=rows(27); n27,m27=len(r27),sum('missed at first' in x for x in r27)
def nm(r): return len(r),sum('missed at first' in x for x in r)
(n1,m1),(n2,m2),(n3,m3),(n4,m4),(n5,m5),(n6,m6),(n7,m7),(n8,m8),(n9,m9)=[nm(r) for r in (r1,r2,r3,r4,r5,r6,r7,r8,r9)]
own=open('/verif/mutants/RESULTS.txt').read().strip().split('\n')
ownrows=[]
for l in own:
    mm=re.match(r'(\S+): (\w+) \(([^)]+)\) (.*)',l)
    name,res,tests,rest=mm.groups()
    cl=re.search(r'^([^,]+), clause (\S+)',rest)
    note=' (missed before C08 drove a VP8 payloader to 15-bit picture ids)' if 'missed before' in rest else ''
    ownrows.append('| %s | %s | %s | %s%s |'%(name,'pass' if tests=='tests-pass' else 'FAIL (the repository tests notice it too)',res.lower(), (cl.group(1)+' / '+cl.group(2)) if cl else '', note))
new='''## 8. Showing that the checks can fail

Two sets of deliberate, compiling, property-breaking changes to pion/rtp were run against the
quick tier of the property's check. `bin/mutants` and `bin/seeded` apply a patch to /repo, run the
repository's own 295 tests, run the check, and revert; nothing of this is ever committed in /repo.

### 8.1 Changes written by independent sub-agents (`seeded/<ID>-<n>/`)

Each sub-agent was given only the text of one property and its own scratch worktree (nothing from
/verif; the briefs of the rounds are kept in `docs/briefs/`) and asked for changes that compile, keep the repository tests passing, break the property,
and need something specific to manifest. Every change was confirmed here before it was kept: the
repository tests pass with it, its demonstration fails with it and passes without it
(`meta.json` records the commands). What each needs in order to manifest is in its `NOTES.md`.

**Round 1** (%d changes; "make it need a particular input, sequence or interleaving"): %d were
detected by the checks as they stood, %d were missed at first and are detected after the
strengthening noted in the table. Two of the detected ones break a different property than the one
their author was given (ownership / reuse of depacketizer state, i.e. C09, written by the authors
for C10 and C12); they are filed under C09 and were detected by C09 as written.

| seed | property | detected by (scenario / clause) |
|---|---|---|
'''%(n1,n1-m1,m1)+'\n'.join(r1)+'''

What the round-1 misses had in common: the violating behaviour lay just outside an *alphabet* (an
extension id in the two-byte form, a STAP-A exactly at the MTU, fragmented units that differ in
type, a packet shape with two elements and Z=Y=1) or outside a *history shape* (garbage between
the two frames rather than before them; both sides of a clone modified).

**Round 2** (%d changes). The second round of authors was told what kind of tool they were up
against — one that explores *small* cases exhaustively — and asked to aim beyond it: sizes and
counts past 2^8, 2^14 and 2^16, the fifth element, sequences longer than three or four calls,
particular byte values in opaque content, rarely combined options. That is this technique's
declared blind side (section 10), and it showed: only %d of the %d were detected as the checks
stood; **%d were missed at first**. All are detected now, after the checks were widened as listed:

| seed | property | detected by (scenario / clause) |
|---|---|---|
'''%(n2,n2-m2,n2,m2)+'\n'.join(r2)+'''

**Round 3** (%d changes, same brief as round 2, for the properties round 2 had not covered): %d
detected as the checks stood, %d missed at first.

| seed | property | detected by (scenario / clause) |
|---|---|---|
'''%(n3,n3-m3,m3)+'\n'.join(r3)+'''

**Round 4** (%d changes, one to two per property, brief of round 1 plus "earlier authors already tried
the obvious slips; find something less obvious" — no hint about the tool; run against the checks as
strengthened by rounds 1-3, i.e. the closest thing here to a held-out test): %d detected as the
checks stood, %d missed at first.

| seed | property | detected by (scenario / clause) |
|---|---|---|
'''%(n4,n4-m4,m4)+'\n'.join(r4)+'''

**Round 5** (%d changes, brief of round 4 plus "prefer rarely exercised paths, options and entry
points" and a list of the ideas already used, so that the authors had to find new ones; run
against the checks as they stood after round 4): %d detected as the checks stood, %d missed.

| seed | property | detected by (scenario / clause) |
|---|---|---|
'''%(n5,n5-m5,m5)+'\n'.join(r5)+'''

**Round 6** (%d changes, the brief of round 2 again — "aim beyond what a small-scope explorer
covers" — with the ideas of all earlier rounds listed as used up; run against the checks as they
stood after round 5): %d detected as the checks stood, **%d missed at first**. All are detected
now. What the misses had in common this time was not a size boundary but a *band* or a *tiling*: a
numeric fast path wrong only for offsets of 1100-2048 s, a pooled allocation wrong only when packet
sizes tile 4096 bytes exactly, a count field wrong only from 86 up, a start-code scanner wrong only
for the body `00 01 00 01`, temporal-layer counts wrong only when layer k+4 differs from layer k, a
length of 2^21. The response was again by rule: continuous quantities get sweeps (every whole
second / minute, a logarithmic grid with 16 mantissas per octave) next to their boundary lists;
every count field is taken through its *whole* range; instances are driven with long runs of
equal-sized inputs for every power of two; content alphabets include the bytes the scanners look at;
reference content has no power-of-two period.

| seed | property | detected by (scenario / clause) |
|---|---|---|
'''%(n6,n6-m6,m6)+'\n'.join(r6)+'''

**Round 7** (%d changes; the authors were told which *kinds* of slip rounds 1-6 had used up —
narrowing, scratch arrays and pools, fast paths, sub-slices, dropped resets, off-by-one at the MTU,
scanners, lock-free rewrites, many elements, huge frames — and asked for a different kind: operator
precedence, capacity instead of length, nil versus empty, package-level state shared between
instances, error and no-output paths that leave state behind, accessors that change what they
read, wrong table entries): %d detected as the checks stood, %d missed at first. Before the seeds
came back the harnesses had been given, for the same list of kinds, guarded input buffers
(sentinels around the slice and in its spare capacity) and unrelated second instances interleaved
with the instance under test.

| seed | property | detected by (scenario / clause) |
|---|---|---|
'''%(n7,n7-m7,m7)+'\n'.join(r7)+'''

**Round 8** (%d changes, two per property; the authors were asked not for a planted defect but for
*real work* — a refactor, a performance change, a robustness change or a small feature of 10-60
lines in the code the property is about, carried out properly, with one honest mistake in it: a
helper right for one caller and wrong for the other, a cache not invalidated by one mutator, a fast
path that forgets a side effect, a validation that rejects something legal, a unified path that
loses a special case): %d detected as the checks stood, %d missed at first. One delivered patch
had been swapped with another author's through a shared `git stash`; it was recovered from the
dangling stash commit and validated like the others.

| seed | property | detected by (scenario / clause) |
|---|---|---|
'''%(n8,n8-m8,m8)+'\n'.join(r8)+'''

**Round 9** (%d changes; the authors worked from the CODE instead of from a property: each got one
source file (or a small group), the texts of all properties that file serves, and the request to go
through it function by function for overlooked spots — helpers, constants and masks, size
computations, secondary methods, constructors, error and early-return paths — and to name the
property each change breaks): %d detected as the checks stood, %d missed.

| seed | property | detected by (scenario / clause) |
|---|---|---|
'''%(n9,n9-m9,m9)+'\n'.join(r9)+'''

(Round 10 produced no seeds: it was the false-alarm probe of section 8.4.)

**Round 11** (%d changes; each author listed the clauses of its property, picked the one it judged
least likely to be exercised — a side condition, a quantifier corner, a parenthesised exception,
the last half-sentence — and broke exactly that; four of the changes are rewrites of the
sequencer's synchronisation that are wrong only when calls overlap: RWMutex, double-checked
locking, atomic value with a separately locked rollover count, unlock before the last read):
%d detected as the checks stood, %d missed at first.

| seed | property | detected by (scenario / clause) |
|---|---|---|
'''%(n11,n11-m11,m11)+'\n'.join(r11)+'''

**Round 12** (%d changes; the brief of round 7 once more - "a different kind of slip" - with the
slips of rounds 7-11 added to the used-up list): %d detected as the checks stood, %d missed at first.

| seed | property | detected by (scenario / clause) |
|---|---|---|
'''%(n12,n12-m12,m12)+'\n'.join(r12)+'''

**Round 13** (%d changes; the brief of rounds 2 and 6 once more - "aim beyond what a small-scope
explorer covers" - telling the authors what the tool had meanwhile been hardened against (sizes
through 2^8..2^21, whole-range counts, time sweeps, thousands of equal-sized calls) and pointing
them at what is left: combinations of two mid-range values, the order of more than four calls,
alignment, a content byte in a structured position, parity of a count, state that only matters
after 5-50 calls, two option flags together): %d detected as the checks stood, **%d missed at
first** - fewer than in rounds 2 and 6 (20 of 24, 11 of 20), but the blind side of a bounded
exploration is still there to be found by someone who looks for it. What was missing this time:
options nobody had switched on (zero-allocation mode of the depacketizers, DONL toggled between
calls, picture ids toggled mid-stream), the second call after a change of size, an update after 15
insertions, repeated ids in decoded packets, non-adjacent duplicates, bit lengths between the
LEB128 size classes, empty fragments from a foreign encoder, layer-id pairs outside a 5-value
alphabet.

| seed | property | detected by (scenario / clause) |
|---|---|---|
'''%(n13,n13-m13,m13)+'\n'.join(r13)+'''

(Round 14 was the second false-alarm probe of section 8.4.)

**Round 15** (%d changes; the brief of round 8 once more - a piece of real work with one honest
mistake - with the pieces of work of round 8 excluded): %d detected as the checks stood, %d missed
at first.

| seed | property | detected by (scenario / clause) |
|---|---|---|
'''%(n15,n15-m15,m15)+'\n'.join(r15)+'''

**Round 16** (%d changes; the brief of round 13 once more, with everything round 13 had found
added to the list of what the tool is hardened against): %d detected as the checks stood, %d
missed at first. One of the misses was of a kind no sequential exploration can see - two codec
instances on two goroutines sharing a scratch slice at package level - and led to a supplementary
free-running pass under the race detector for every property but C07 (which had one already).

| seed | property | detected by (scenario / clause) |
|---|---|---|
'''%(n16,n16-m16,m16)+'\n'.join(r16)+'''

**Round 17** (%d changes; the brief of round 11 - "the least obvious clause of the property" -
once more, with the list of clauses the earlier rounds had used up): %d detected as the checks
stood, %d not. One of the two (C15-r17-2) showed that a deletion the mutation campaign had been
read as equivalent - the AV1 depacketizer clearing its fragment buffer on a packet with Z=0 - is
not: a packet whose last element is announced as the start of a fragment but carries no bytes
never reaches the store that would replace the buffer. The other (C20-r17-1) is a nil-for-empty
difference the checks do not demand on purpose, and is filed as not adopted.

| seed | property | detected by (scenario / clause) |
|---|---|---|
'''%(n17,n17-m17,m17)+'\n'.join(r17)+'''

**Round 18** was an audit rather than a round of new changes: the survivors of the syntactic
mutation campaign (8.3), each of which had been read as not breaking a property, were handed in
five groups to fresh sub-agents together with the property texts of the files concerned, with the
task of proving the reading wrong - a demonstration that fails with the mutant and passes without.
Of 219 survivors they claimed %d (their verdicts on all of them are kept in `mutants/audit/`):
all undetected as the checks stood, by construction. Two (a read
one byte past the end of a four-byte extension block, which succeeds whenever the slice has spare
capacity) showed a weakness of every harness at once - inputs were copied with `append`, which
rounds the capacity up - and `clone` now returns exactly as much capacity as length. One set
reserved bits the receiver has to ignore. One made an AV1 packet one byte too long at the single
MTU at which the space left for a length-prefixed element is exactly 16384 bytes. One is about DON values, which the unchanged library
does not get right either and the text does not demand, and is filed as not adopted.

| seed | property | detected by (scenario / clause) |
|---|---|---|
'''%(n18,)+'\n'.join(r18)+'''

**Round 19** (%d changes; a new brief: re-create a bug that RTP stacks - pion's own history,
libwebrtc, GStreamer, FFmpeg, webrtc-rs - have actually had in the area of the property): %d
detected as the checks stood, %d missed at first.

| seed | property | detected by (scenario / clause) |
|---|---|---|
'''%(n19,n19-m19,m19)+'\n'.join(r19)+'''

**Round 20** (%d changes; another new brief: two features that are each right alone and wrong
together - CSRC list and extension, reused receiver and the shorter form, DONL and
SkipAggregation and a unit of MTU bytes, a wrapped picture id below 128): %d detected as the
checks stood, %d missed at first.

| seed | property | detected by (scenario / clause) |
|---|---|---|
'''%(n20,n20-m20,m20)+'\n'.join(r20)+'''

**Round 21** (%d changes; another new brief: bugs that depend on particular values or byte content
- a mask one bit off, a signed intermediate, a marker searched for inside the data, records of all
zero octets - rather than on lengths and counts): %d detected as the checks stood, %d not. Two of
those four were real gaps of content (reserved OBU header bits, a resolution record of zero
octets); the other two strip zero octets from the end of a NAL unit, which Annex B does not count
as part of the unit, and are filed as not adopted.

| seed | property | detected by (scenario / clause) |
|---|---|---|
'''%(n21,n21-m21,m21)+'\n'.join(r21)+'''

**Round 22** (%d changes; another new brief: break the property from a distance - a change in a
helper, a shared scanner, the header code underneath the packetizer, a constant or a constructor,
reasonable for the dependency's own purpose, that breaks the property through the code relying on
it): %d detected as the checks stood, %d missed at first.

| seed | property | detected by (scenario / clause) |
|---|---|---|
'''%(n22,n22-m22,m22)+'\n'.join(r22)+'''

**Round 23** (%d changes; the "real work" brief of rounds 8 and 15 a third time, with the pieces
of work of those rounds excluded and a preference for what a maintainer would do this year:
accepting a variant the RFC allows, encoding/binary and math/bits instead of hand-written bit
twiddling, removing allocations, making sibling types consistent): %d detected as the checks
stood, %d missed at first.

| seed | property | detected by (scenario / clause) |
|---|---|---|
'''%(n23,n23-m23,m23)+'\n'.join(r23)+'''

**Round 24** (%d changes; a short last round for the ten properties in which earlier rounds had
found most gaps, under the value-and-content brief of round 21 with its findings excluded): %d
detected as the checks stood, %d missed at first.

| seed | property | detected by (scenario / clause) |
|---|---|---|
'''%(n24,n24-m24,m24)+'\n'.join(r24)+'''

**Round 25** (%d changes; a few more under the same brief, asked to be made of two cooperating
sites that each look harmless alone): %d detected as the checks stood, %d missed at first.

| seed | property | detected by (scenario / clause) |
|---|---|---|
'''%(n25,n25-m25,m25)+'\n'.join(r25)+'''

**Round 26** (%d changes; the same two-site brief for eight other properties): %d detected as the
checks stood, %d missed at first.

| seed | property | detected by (scenario / clause) |
|---|---|---|
'''%(n26,n26-m26,m26)+'\n'.join(r26)+'''

**Round 27** (%d changes; the same two-site brief for five codec properties): %d detected as the
checks stood, %d missed at first.

| seed | property | detected by (scenario / clause) |
|---|---|---|
'''%(n27,n27-m27,m27)+'\n'.join(r27)+'''

What changed in response, as a rule rather than case by case: every property whose code handles a
length, a count or an index now has a *scale* scenario next to its small-scope product, in which
each such quantity is taken, one at a time, through the boundaries of the integer widths a
maintainer might narrow it to ({255,256,257}, {16383,16384,16385}, {65535,65536} and one value well
beyond), sequences are run to 5-7 steps over a small alphabet, opaque content also comes as all
zero bytes, values handed in by the caller may share memory with each other, and receivers also
start from "used before" states. Widening C13 in this way (more than 256 elements in a packet)
also exposed a genuine defect of the same family in the library (`AV1Packet`, section 7, D13b).
None of this makes the bound go away: a defect that needs the 70 001st byte, the 301st element or
the eighth call is still outside what is claimed (section 10).

### 8.2 Own changes (`mutants/*.patch`, results in `mutants/RESULTS.txt`)

43 hand-written changes (wrong mask or shift, `<` vs `<=`, dropped reset, sub-slice instead of a
copy, counter advanced on the wrong path, lock released early, rollover counted in a second
critical section, lock-free read) plus the reversal of each of the 22 `fix:` commits made before
the detection experiments. All 65 are detected by the quick tier (table below). Four further
candidates were discarded because they do not break a property: two were equivalent mutants (the
AV1 fragment store appending instead of assigning, and keeping the AV1 buffer when Z=0 and Y=1:
the buffer is provably empty / overwritten at those points), one only affects 1-byte NAL units
(outside C10's domain of units of at least two bytes), one was a no-op by construction.

| change | repository tests | result | scenario / clause |
|---|---|---|---|
'''+'\n'.join(ownrows)+'''

For C07 the three own changes and the three seeded ones cover: value read after unlock (duplicate
/ gap, also a data race), rollover counted in a second critical section (linearizability violation
at preemption bound 1, no data race, invisible to `-race`), `RollOverCount` without the lock (data
race only: invisible to the atomicity oracle, found by the vector-clock oracle on the first
schedule), and a lock-free rewrite that is linearizable but wrong for start value 0 only (found by
the sequential sweep over all 65 536 start values and by the model in the concurrent part).

---------------------------------------------------------------------------------------------

'''
if KEEP_TAIL:
    new=new.rstrip().rsplit('\n',1)[0].rstrip()+'\n\n'
s=s[:i]+new+s[j:]
open(p,'w').write(s)
print('section 8 regenerated: round1',n1,m1,'round2',n2,m2)
