# Data for bin/genmanifest (python, exec'd).
HOOKS = {
    "guard": "verif",
    "enable": "go build -tags verif (bin/check); C07 additionally overlays an instrumented copy of sequencer.go through go build -overlay",
    "baseline_off_cmd": "cd /repo && go test -mod=mod -json -vet=off -count=1 -timeout 25m ./...",
    "source_commits": [],
    "add_only": True,
}
ENGINES = [
    {"name": "mc", "path": "/verif/harness/mc", "serves_properties": [],
     "kind_free_text": "hand-written stateless explorer: depth-first enumeration of every path of a harness's choice tree (inputs, operation sequences, environment answers, schedules), each path executed once against the real library, sharded over 16 worker processes; reference models in Go as oracles"},
]
NOTES = "All checks run the real pion/rtp code from /repo's working tree; see DESIGN.md."
NOT_YET = {}

claim("C16", "DESIGN.md 5 C16",
      "Exhaustive enumeration of (input length, MTU) pairs: the complete grid [nil,0..300]x[1..300], all lengths 0..10000 (thorough) or every length around a multiple of the MTU (quick) for 13 boundary MTUs, and every OpusPacket input length 0..300 x marker x fresh/used receiver; each case runs the real payloaders and is compared with the trivial reference (concatenation, fragment sizes, aliasing by address and by overwrite).",
      "Payload bytes are position dependent; the payloaders do not branch on content. Lengths > 10000 and MTUs outside the alphabet are outside the bound.",
      "bounded exhaustive enumeration of inputs against a reference model (explicit choice-tree DFS on the real code)")
