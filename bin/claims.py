# Data for bin/genmanifest (python, exec'd).
HOOKS = {
    "guard": "verif",
    "enable": "go build -tags verif (bin/check); C07 additionally overlays an instrumented copy of sequencer.go through go build -overlay",
    "baseline_off_cmd": "cd /repo && go test -mod=mod -json -vet=off -count=1 -timeout 25m ./...",
    "source_commits": ["00de0fa"],
    "add_only": True,
}
ENGINES = [
    {"name": "mc", "path": "/verif/harness/mc", "serves_properties": [],
     "kind_free_text": "hand-written stateless explorer: depth-first enumeration of every path of a harness's choice tree (inputs, operation sequences, environment answers, schedules), each path executed once against the real library, sharded over 16 worker processes; reference models in Go as oracles"},
]
NOTES = "All checks run the real pion/rtp code from /repo's working tree; see DESIGN.md."
NOT_YET = {}

claim("C16", "DESIGN.md 5 C16",
      "Exhaustive enumeration of (input length, MTU) pairs: the complete grid [nil,0..300]x[1..300], all lengths 0..10000 (thorough) or every length around a multiple of the MTU (quick) for 13 boundary MTUs, and every OpusPacket input length 0..300 x marker x fresh/used receiver; each case runs the real payloaders and is compared with the trivial reference (concatenation, fragment sizes, aliasing by address and by overwrite).",
      "Payload bytes are position dependent; the payloaders do not branch on content. Lengths > 10000 and MTUs outside the alphabet are outside the bound.",
      "bounded exhaustive enumeration of inputs against a reference model (explicit choice-tree DFS on the real code)")

claim("C17", "DESIGN.md 5 C17",
      "Complete enumeration of the value domains: 2x256 audio levels, all 2^16 transport sequence numbers, all 2^24 playout-delay pairs plus the out-of-range alphabet, all 2^24 abs-send-time values (x5 settings of the ignored upper bits), AbsCaptureTime over 2x5^8 64-bit grid words against 12-13 values of the other field; every decoder with every input length nil,0..size+2 (0..18 for AbsCaptureTime) x 3 contents x 5 prior receiver states (incl. the current input with one byte inverted); AbsCaptureTime sweeps decode into receivers that last held a value agreeing in one field. Every case is compared bit for bit with the layout written from the specifications and decoded back into fresh and used receivers.",
      "64-bit AbsCaptureTime fields are a grid (8-byte strings over {00,01,7F,80,FF}), not the full domain.",
      "complete-domain enumeration against a bit-level reference encoder (explicit choice-tree DFS on the real code)")

claim("C18", "DESIGN.md 5 C18",
      "Exhaustive over a stated boundary grid of the (continuous) time domain: 5 eras (1970 .. 130 s before the NTP era end) x 8 second offsets around the 64 s wrap of the 24-bit field x a sub-second grid (26 points quick; every nanosecond of the first and last three 2^-18 s quanta and around every 1/64 s, 23k points, thorough) x 18 delays up to 64 s - 2^-18 s - 1 ns, and 16 offset magnitudes x sign x 4 sub-second additions x era. Every grid point runs the real constructors, the wire round trip and the inverse mapping and is checked against the 1 ns / 2^-18 s bounds of the property.",
      "Instants, delays and offsets between grid points are outside the bound; the grid follows the structure of the arithmetic (fraction depends on the sub-second part only; the 24-bit field on seconds mod 64 and the top 18 fraction bits).",
      "bounded exhaustive enumeration over a boundary grid (explicit choice-tree DFS on the real code)")

claim("C01", "DESIGN.md 5 C01",
      "Bounded exhaustive enumeration of rtp.Packet values built through the public API: the full product of CSRC count x extension configuration (none; one-byte 0-3 elements + the 14-element block, preset or auto-selected profile; two-byte 0-3 elements; legacy 5 profiles x 4 sizes) x payload length x padding size x fixed-field presets, plus the full product of the fixed-field alphabets over 8 layouts; every value is marshalled, its size compared with MarshalSize, unmarshalled and compared field by field (ids in order, values, payload, padding size); same for Header alone with the reported length.",
      "Alphabets per dimension are stated in the evidence assumptions; values outside them (payload > 1200 bytes, 4-13 elements) are outside the bound.",
      "bounded exhaustive enumeration of inputs with a round-trip oracle against the generating model (explicit choice-tree DFS on the real code)")
claim("C04", "DESIGN.md 5 C04",
      "For every packet of the reduced C01 space (all size-affecting dimensions) and 4 prior buffer contents, EVERY destination length from 0 to MarshalSize()+3 is tried for Packet.MarshalTo and Header.MarshalTo: short => io.ErrShortBuffer and no panic; sufficient => n == MarshalSize, bytes identical to Marshal(), bytes beyond untouched.",
      "Packet alphabets as in C01 (reduced in the quick tier).",
      "bounded exhaustive enumeration of (packet, destination length, prior content) (explicit choice-tree DFS on the real code)")
claim("C20", "DESIGN.md 5 C20",
      "For every packet of the C01 space, built through the API or decoded from its own wire image, Packet.Clone and Header.Clone are compared with the generating model, then each of 10 single mutations is applied to the original or to the clone and the other side's reported fields and Marshal() bytes must be unchanged (shared backing arrays are detected by overwriting through every exposed slice, appending within capacity, Set/Del of extensions, and overwriting the decoded-from buffer).",
      "Packet alphabets as in C01 (reduced in the quick tier).",
      "bounded exhaustive enumeration of (packet, mutation) histories with a differential oracle (explicit choice-tree DFS on the real code)")

claim("C03", "DESIGN.md 5 C03",
      "Wire images are generated from the RFC 3550/8285 grammar by an independent reference builder: CSRC count x block kind (none / one-byte / two-byte / legacy) x every item sequence (pad runs 1-3, elements, id-15 terminator + ignored bytes) up to 3 items in full product with payload and RTP padding (incl. non-zero filler), up to 4 (quick) / 5 (thorough) items with reduced other dimensions, x extra pad word. Every image must be accepted and decode to the generating values with the header ending at the end of the block; every accepted input (images and all single-byte mutations of their header region) must re-encode to bytes that decode equal, byte-identical when canonical, or report invalid padding; the three standalone block views must give the same ids/values and re-serialise identically.",
      "Duplicate ids and id-0 bytes with a length nibble are not generated. Two listed known findings (pinned payload start after an id-15 terminator; RawExtension value includes the block header) are matched by exact defect models, anything else is reported.",
      "bounded exhaustive enumeration of grammar-generated inputs against an independent reference encoder/parser (explicit choice-tree DFS on the real code)")

claim("C05", "DESIGN.md 5 C05",
      "All sequences of SetExtension/DelExtension calls up to depth 3 (quick) / 4 (thorough) over a 62-operation alphabet (7 ids x 8 value lengths incl. the illegal ones, 6 Del ids) from 7 starting states (fresh, three preset profiles, three headers decoded from wire). After every step an ordered-map reference model (stepped by the calls that returned nil) is compared with GetExtensionIDs/GetExtension, a failed call must leave the header unchanged, Marshal must not panic and may fail only for an odd-sized legacy value, and every accepted value must come back unchanged after Marshal/Unmarshal.",
      "Ids and lengths outside the alphabets and sequences longer than the depth are outside the bound.",
      "bounded exhaustive enumeration of operation sequences against a reference model (explicit choice-tree DFS on the real code, history replay on fresh instances)")

claim("C02", "DESIGN.md 5 C02",
      "Exhaustive enumeration of hostile inputs: every first byte x every total length up to what it claims + 6; X=1 images with every body string up to 4 (quick) / 5 (thorough) bytes over a 13-symbol alphabet x profile x length-field lies x P bit x 9 tails x CSRC count (29 M images quick); every truncation and single-byte mutation of the C01 reduced space images (34 M); each decoded by Header.Unmarshal and Packet.Unmarshal and checked for no panic, header length inside the input, lengths adding up, payload and every extension value being sub-slices of the input by ADDRESS in increasing order. Reuse: all ordered pairs of a ~200-input corpus (one per outcome class) and all triples over its first 40/90, decoded into one receiver and compared (return values, all RFC fields, re-marshalled bytes) with a fresh receiver.",
      "Result of a reused receiver excludes state after a failed decode, nil-vs-empty, capacities and a stale ExtensionProfile while X is clear (DESIGN.md 5.0).",
      "bounded exhaustive enumeration of inputs and decode histories with a fresh-twin differential oracle (explicit choice-tree DFS on the real code)")

claim("C07", "DESIGN.md 2.3, 5 C07",
      "Sequential: ALL 65536 start values of NewFixedSequencer driven through the first wrap (+3 calls; three wraps in thorough) with successor and RollOverCount checked, and ALL 32767 answers of the random generator for NewRandomSequencer. Concurrent: the working tree's sequencer.go is rewritten at check time (sync -> controlled shim, yield before every statement, access report for every field) and EVERY interleaving of 2- and 3-thread harnesses (every assignment of 1-3 operation lists over {Next, RollOverCount}, start values around the wrap) is executed under the cooperative scheduler, iterated over preemption bounds 0,1,2 and then unbounded; every complete execution is checked for deadlock, linearizability against the counter model (porcupine), no duplicate / no gap, and by a vector-clock happens-before race oracle over all reported accesses.",
      "Interleaving at statement granularity plus the happens-before oracle stand for the Go memory model; cross-checked by a free-running go test -race pass of the same bodies with the real sync package (supplementary, decides nothing alone). More than 3 threads / 3 operations per thread is outside the bound.",
      "stateless model checking of the real code under a controlled scheduler (all interleavings, iterative preemption bounding) + linearizability checking + happens-before race oracle")

claim("C10", "DESIGN.md 5 C10",
      "Payloader side: every sequence of 1-3 (thorough: 4) NAL units (type, NRI, size relative to the MTU, 3/4-byte start code) over 9 MTUs x StapA on/off x AVC on/off x every position of the call boundary is packetized by the real H264Payloader; the payloads are parsed and reassembled by an independent RFC 6184 reference (single / STAP-A / FU-A with S,E,NRI,type, >= 2 fragments, <= MTU), compared with the input units, IsPartitionHead is checked on every payload, and the payloads are fed to one H264Packet whose concatenated output must equal the Annex-B/AVC framing of the units. Decoder side: every arrangement of up to 3 groups (single, STAP-A of 1-3 units, FU-A train with every set of 1-3 split points) from the reference encoder is decoded by H264Packet.",
      "Two listed known findings (parameter-set hold-back anomalies, STAP-A over MTU dropped) are matched by an exact model of the hold-back state machine; any other difference is reported. Alphabets in the evidence assumptions.",
      "bounded exhaustive enumeration of unit sequences and payload arrangements against an independent RFC 6184 reference packetizer/reassembler (explicit choice-tree DFS on the real code)")

claim("C11", "DESIGN.md 5 C11",
      "Payloader: one VP8Payloader instance per (MTU, picture ids on/off, length-cycle offset) is driven through 32768+130 frames, i.e. EVERY picture id incl. the 127/128 form switch and the 15-bit wrap, every id meeting every frame-length class relative to the MTU; every packet is decoded by VP8Packet and checked (concatenation = frame, S / IsPartitionHead on the first packet only, partition index 0, I=1 with the expected running id in the right 7/15-bit form, <= MTU). Decoder: descriptors from an independent RFC 7741 encoder: ALL 256 first octets x ALL 256 extension octets x field values x 0/1/3 payload bytes, plus complete sweeps of all picture ids, TL0PICIDX and TID/Y/KEYIDX octets, each with EVERY truncation (cut inside the descriptor rejected, cut after it = empty payload), decoded into a receiver pre-loaded with other values.",
      "Field alphabets of the flag product in the evidence assumptions.",
      "bounded exhaustive enumeration (complete for picture ids and flag octets) against an independent RFC 7741 descriptor encoder (explicit choice-tree DFS on the real code)")

claim("C12", "DESIGN.md 5 C12",
      "Payloader: frames written by an independent uncompressed-header bit writer (profiles 0-3 x bit depth x all 8 colour spaces x range x subsampling; 36 sizes; key / inter / intra-only / show-existing) x 5 length classes relative to the MTU x 8 MTUs x flexible/non-flexible x 7 sources of the initial picture id (InitialPictureIDFn incl. 0x7FFE/0x7FFF for the wrap, and the random seam), three frames per instance; every packet decoded by VP9Packet: concatenation = frame, B/E, constant 15-bit picture id +1 per frame mod 2^15, F, P, scalability structure with the coded size on the first packet of a non-flexible key frame, <= MTU. Header parser compared field by field with what was written, incl. every width/height value 1..65536 (thorough). Decoder: ALL 256 flag octets x picture id forms x layer indices x 1-3 P_DIFFs (fourth rejected) x scalability structures (N_S, Y, G, N_G, R) x 0/1/3 payload bytes from an independent descriptor encoder, with EVERY truncation.",
      "Alphabets and the reading of P for intra-only/show-existing frames in the evidence assumptions; SID >= 5 and coded width 65536 are not demanded (DESIGN.md 5.0).",
      "bounded exhaustive enumeration against an independent VP9 descriptor encoder and uncompressed-header bit writer (explicit choice-tree DFS on the real code)")

claim("C13", "DESIGN.md 5 C13",
      "Every OBU sequence of the stated alphabets (1-2 OBUs over 9 types x 5 extension settings x 8-13 sizes around the MTU and the 127/128 LEB128 boundary; 3-4 (thorough 5) OBUs over reduced alphabets) x 10 MTUs x size field on all / omitted on the last is packetized by the real AV1Payloader; an independent checker parses every payload and enforces the aggregation rules (<= MTU, W = element count or 0 with all elements length-prefixed, Z = previous Y, last Y = 0, no empty element, size flag cleared, no two layer ids per packet) and reassembles the OBUs; the same payloads go through one AV1Depacketizer (output = OBUs with size fields, temporal delimiters and tile lists removed) and through fresh AV1Packets + one frame.AV1 assembler. Complete sub-domains: LEB128 write/read for ALL 2^32 values (thorough; boundary neighbourhoods quick) incl. minimality and the deprecated aliases; ALL 2^16 OBU header byte pairs parse->marshal and marshal->parse.",
      "OBU sequences of 6-8 units and alphabets beyond the stated ones are outside the bound.",
      "bounded exhaustive enumeration against an independent AV1 RTP aggregation-rule checker and OBU writer; complete enumeration of LEB128 and OBU-header domains (explicit choice-tree DFS on the real code)")

claim("C14", "DESIGN.md 5 C14",
      "Payloader side: every sequence of 1-3 (thorough 4) HEVC NAL units (8 types, 3 layer/TID pairs, sizes around the MTU, start-code length) x 8 MTUs x SkipAggregation x AddDONL is packetized by the real H265Payloader; every payload is parsed by H265Packet AND by an independent RFC 7798 parser (which must agree on the structure), DONL/DOND placement, AP header (type 48, minimum layer id and TID), FU shape (>= 2 FUs, S first only, E last only, FuType, F/layer/TID), IsPartitionHead and the MTU are checked, and the units are reassembled and compared with the input. Parser side: single / AP (2-3 units) / FU (start, middle, end) / PACI (every PHSsize 0-31 x F0-F2,Y x A x cType) payloads from the reference encoder, with and without DONL, with EVERY truncation (rejected unless the prefix is itself well-formed) and all accessors compared. Complete domains: all 2^16 payload headers, 2^8 FU headers, 2^16 PACI field words and ALL 2^24 TSCI triples.",
      "F = 0 only; DON values are not demanded. One listed known finding (DONL in every FU, pinned by a test) matched by an exact defect model.",
      "bounded exhaustive enumeration against an independent RFC 7798 encoder/parser; complete enumeration of the bit-field domains (explicit choice-tree DFS on the real code)")

claim("C15", "DESIGN.md 5 C15",
      "Fault enumeration on histories: for every frame-A shape (12 H264 shapes mixing single / STAP-A / FU-A trains, 8 AV1 OBU sequences fragmented by the real payloader into Z/Y chains; up to 10 packets) ALL 2^n loss subsets are delivered in order to one depacketizer, preceded by every sequence of 0-2 strings of an 8-string garbage corpus, followed by an intact frame B (5 H264 / 4 AV1 shapes covering every form of first packet); the output of every packet of B must equal that of a fresh depacketizer, byte for byte. H264 in Annex-B and AVC mode.",
      "Frame shapes and the garbage corpus are fixed lists (stated in the evidence); reordering and duplication are outside the bound.",
      "exhaustive enumeration of loss subsets and garbage prefixes with a fresh-twin differential oracle (explicit choice-tree DFS on the real code)")

claim("C08", "DESIGN.md 5 C08",
      "For 13 payloader configurations: every byte string up to 5 (quick) / 6 (thorough) bytes over an 8-symbol codec alphabet x every MTU 0..12; a structured corpus per codec (30-60 inputs from the reference writers incl. malformed ones) x EVERY MTU 0..40 and 10 larger ones; and every history of up to 3 calls on one instance over 12 MTUs. Every call runs on an instance whose input buffer is overwritten right after Payload returns and on a twin fed pristine copies: no panic, every fragment 1..MTU bytes (Opus: the input as one fragment), caller buffer unchanged, fragments do not share memory with the input (by address), fragments returned earlier never change (checked after every later call and overwrite), and the twin produces identical output at every step.",
      "Corpora and alphabets are fixed lists stated in the evidence; VP9 uses a fixed InitialPictureIDFn so that the twins agree.",
      "bounded exhaustive enumeration of inputs, MTUs and call histories with an overwrite-twin differential oracle (explicit choice-tree DFS on the real code)")

claim("C09", "DESIGN.md 5 C09",
      "For 10 receiver kinds (H264Packet Annex-B/AVC, H265Packet +/-DONL, VP8Packet, VP9Packet, AV1Depacketizer, AV1Packet fresh/reused + frame.AV1, OpusPacket): nil, empty and EVERY byte string of up to 2 bytes (thorough: 3 bytes, all 16.8 M; quick: 3-byte strings over 40 symbols) into a fresh and a used receiver; and EVERY sequence of up to 3 (thorough 4) payloads from a ~40-payload corpus per codec (reference encoders: every descriptor option, fragment start/middle/end, aggregation, PACI, truncated and malformed payloads) fed to one receiver with IsPartitionHead/IsPartitionTail interleaved. No call may panic; per-packet formats must return the same bytes/error and the same exported fields and accessor values as a fresh receiver at every step; H264Packet and AV1Depacketizer run against a twin while their earlier input buffers are overwritten after every call and must give identical outputs.",
      "Corpora are fixed lists generated from the reference encoders; nil vs empty slices are not distinguished.",
      "bounded exhaustive enumeration of payload histories with fresh-twin and overwrite-twin differential oracles (explicit choice-tree DFS on the real code)")

claim("C19", "DESIGN.md 5 C19",
      "Encoder: for stream counts 1-4 and every RID, EVERY subset of the stream x spatial slots (16 + 256 + 4096 + 65536) x 4 temporal-layer patterns x bitrate patterns across all LEB128 size classes x resolution on/off is marshalled by the real VLA.Marshal, compared byte for byte with a reference encoder written from the video-layers-allocation00 text, and unmarshalled into a fresh and a used receiver (all bytes consumed, equal value). Invalid stream counts, RIDs, spatial ids, layer stream ids, duplicates and 0, 5, 6, 255-261, 513, 65537 temporal layers must be rejected. Decoder: nil, empty, all 1-2 byte strings, 3-byte strings (all in thorough), and every truncation and single-byte mutation of valid encodings into fresh and used receivers: no panic, consumed <= given, used = fresh.",
      "The empty allocation is only round-tripped. Pattern alphabets in the evidence assumptions.",
      "bounded exhaustive enumeration (complete over slot subsets) against an independent specification encoder (explicit choice-tree DFS on the real code)")

claim("C06", "DESIGN.md 5 C06",
      "All sequences of Packetize / SkipSamples / GeneratePadding calls (depth 2 over the full 31-call alphabet, depth 3 - thorough 4 - over a 12-call sub-alphabet) x 6 MTUs x 8 real payloaders behind a recording wrapper x abs-send-time off / id 1 / id 14 x 4 start configurations (sequencer start incl. 65534/65535 for the wrap, initial timestamp answered through the random seam incl. values that wrap, clock answered through the clock seam). A two-counter reference model (next sequence number, timestamp) is stepped alongside: payloader called once with the caller's payload and a budget <= MTU-12, packets carry the recorded fragments in order, consecutive sequence numbers across all calls, one timestamp per call advancing by samples and skipped samples mod 2^32, SSRC/PT/version 2, marker on the last only, abs-send-time only on the last packet and equal to the independently computed 24-bit value of the clock answer, every packet marshals to <= MTU bytes and parses back equal, padding packets marshal to valid padding-only packets.",
      "Hooks (build tag verif): VerifSetRandom for the initial timestamp, VerifSetClock for the send instant. Alphabets in the evidence assumptions; Opus is exempt from the size clause when the payload exceeds the budget (by design).",
      "bounded exhaustive enumeration of call histories and environment answers against a reference model (explicit choice-tree DFS on the real code)")

SCALE_NOTE = " In addition to the small-scope product, scale scenarios take each length, count and index one at a time through the integer-width boundaries {255,256,257}, {16383,16384,16385}, {65535,65536} and one value well beyond, run sequences of 5-7 steps over a small alphabet, and use zero-filled content, value slices shared between calls and receivers that were used before (DESIGN.md 8.1)."
for _pid in ["C01", "C02", "C03", "C05", "C06", "C08", "C09", "C10", "C12", "C13", "C14", "C19"]:
    _r, _t, _n, _k = CLAIMED[_pid]
    CLAIMED[_pid] = (_r, _t + SCALE_NOTE, _n, _k)

# what the later detection experiments (rounds 6-9, mutation campaign) added, per property
LATER = {
    "C01": "Serialising is repeated and must give the same bytes and leave the packet unchanged.",
    "C03": "The standalone views also serialise into a destination of exactly MarshalSize() bytes.",
    "C04": "A further scenario serialises a parsed packet back into the buffer it was parsed from (its extension values and payload are views into the destination; padding filler zero or non-zero).",
    "C05": "Legacy start states come for the profiles {0x1234, 0x1001, 0x100F, 0xBEDF, 0x0000}.",
    "C06": "Payload lengths also relative to the budget left after the abs-send-time extension (the last fragment fills its packet); an unrelated second packetizer is interleaved in the long-sequence scenario.",
    "C07": "In the start-value sweep a second sequencer is used alternately for odd start values.",
    "C08": "Steady streams: up to 4200 distinct equal-sized inputs per instance for every power of two 1..4096; inputs are handed over inside guarded arrays (sentinels before, behind and in the spare capacity); every truncation of the VP9 headers of all profiles.",
    "C09": "Wide structures: every N_G 0..255, aggregation packets of up to 300 units, OBUs around 2^21 bytes, each at truncations, into fresh and used receivers; inputs in guarded arrays.",
    "C10": "Every legal NAL body of up to 7 (8) bytes over {00,01,03,FF}; long sequences include lone SPS / PPS; an unrelated second payloader and depacketizer are interleaved in the wide scenario.",
    "C11": "An unrelated second payloader and calls with empty input are interleaved in the picture-id sweep.",
    "C12": "Frames of 65535..140000 bytes with aperiodic content; an unrelated second payloader is interleaved.",
    "C13": "OBUs of 2^21-2..2^21+1 bytes; an unrelated second depacketizer / assembler is interleaved in the wide scenario.",
    "C14": "Units of 20000-65000 bytes at MTUs up to 65535; every legal NAL body of up to 6 (7) bytes over {00,01,03,FF}; the four structure decoders are also called directly; an unrelated second payloader is used first in the wide scenario.",
    "C15": "Frame shapes include FU-A trains whose start, middle or end fragment carries no payload octets.",
    "C17": "AbsCaptureTime decode sequences of 2-4 inputs on one receiver, the caller keeping and re-reading every decoded value; the caller also adjusts decoded offsets in place.",
    "C18": "Sweeps: every whole second to 8191 s, whole minutes to 2^31 s, a logarithmic grid with 16 mantissas per octave, every whole hour 1970-2036, delays in 125 ms steps.",
    "C19": "Every temporal-layer count vector in {1..4}^L for L <= 8 active layers; resolution fields are compared also when the allocation carries none.",
}
RACE_NOTE = " Supplementary (decides nothing alone): before the exploration a free-running pass under the Go race detector runs 8 goroutines, each with values / instances of its own, which must each get what a single goroutine gets (DESIGN.md 2.3b)."
for _pid in CLAIMED:
    if _pid != "C07":
        _r, _t, _n, _k = CLAIMED[_pid]
        CLAIMED[_pid] = (_r, _t, _n + RACE_NOTE, _k)
for _pid, _txt in LATER.items():
    _r, _t, _n, _k = CLAIMED[_pid]
    CLAIMED[_pid] = (_r, _t + " Added later (DESIGN.md 5.22): " + _txt, _n, _k)
