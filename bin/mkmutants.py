#!/usr/bin/env python3
"""Development helper: writes the hand-made property-breaking changes as patch files under
mutants/ (each is a string replacement in one file of /repo, turned into a git diff).
/repo must be clean; it is left clean."""
import subprocess, sys
M = []
def m(name, path, old, new, count=1):
    M.append((name, path, old, new, count))

# ---- C01 / C02 / C03 / C04 / C05 / C20 (packet.go) ----
m("C01-1-csrc-count-mask", "packet.go", "nCSRC := int(buf[0] & ccMask)", "nCSRC := int(buf[0] & 0x7)")
m("C01-2-onebyte-length-nibble", "packet.go", "buf[n] = extension.id<<4 | (uint8(len(extension.payload)) - 1)", "buf[n] = extension.id<<4 | ((uint8(len(extension.payload)) - 1) & 0x7)")
m("C01-3-marshalsize-twobyte", "packet.go", "extSize += 2 + len(extension.payload)", "extSize += 2 + len(extension.payload)&0x7F")
m("C02-1-paddingsize-not-reset", "packet.go", "	} else {\n		p.PaddingSize = 0\n	}\n", "	}\n")
m("C02-2-csrc-reuse-capacity", "packet.go", "if cap(h.CSRC) < nCSRC || h.CSRC == nil {", "if h.CSRC == nil {")
m("C02-3-twobyte-length-read-unchecked", "packet.go", "					if len(buf) <= n {\n						return n, fmt.Errorf(\"size %d < %d: %w\", len(buf), n, errHeaderSizeInsufficientForExtension)\n					}\n", "")
m("C02-4-extensions-not-truncated-on-reuse", "packet.go", "	if h.Extensions != nil {\n		h.Extensions = h.Extensions[:0]\n	}\n", "	if h.Extensions != nil && !h.Extension {\n		h.Extensions = h.Extensions[:0]\n	}\n")
m("C03-1-padding-skip-onebyte-only", "packet.go", "				if buf[n] == 0x00 { // padding", "				if buf[n] == 0x00 && (h.ExtensionProfile == extensionProfileOneByte || n+1 == extensionEnd) { // padding")
m("C03-2-view-twobyte-get-no-padding-skip", "header_extension.go", "func (e *TwoByteHeaderExtension) Get(id uint8) []byte {\n	for n := 4; n < len(e.payload); {\n		if e.payload[n] == 0x00 { // padding\n			n++\n\n			continue\n		}\n", "func (e *TwoByteHeaderExtension) Get(id uint8) []byte {\n	for n := 4; n < len(e.payload); {\n		if e.payload[n] == 0x00 && n%4 != 0 { // padding\n			n++\n\n			continue\n		}\n")
m("C03-3-legacy-header-length", "packet.go", "			n += len(h.Extensions[0].payload)\n		}\n	}\n\n	return n, nil", "			n += len(h.Extensions[0].payload) &^ 0x100\n		}\n	}\n\n	return n, nil")
m("C04-1-size-check-forgets-padding", "packet.go", "if n+len(p.Payload)+int(p.PaddingSize) > len(buf) {", "if n+len(p.Payload) > len(buf) {")
m("C04-2-padding-zeroing-off-by-one", "packet.go", "for i := n + m; i < n+m+int(p.PaddingSize-1); i++ {", "for i := n + m + 1; i < n+m+int(p.PaddingSize-1); i++ {")
m("C05-1-error-path-enables-extension", "packet.go", "	// No existing header extensions\n	if id < 1 {", "	// No existing header extensions\n	h.ExtensionProfile = extensionProfileTwoByte\n	if id < 1 {")
m("C05-2-update-existing-after-delete", "packet.go", "			h.Extensions = append(h.Extensions[:i], h.Extensions[i+1:]...)\n", "			h.Extensions = append(h.Extensions[:i], h.Extensions[i+1:]...)\n			if i == 1 && len(h.Extensions) > 1 {\n				h.Extensions[0], h.Extensions[1] = h.Extensions[1], h.Extensions[0]\n			}\n")
m("C20-1-clone-shares-single-csrc", "packet.go", "	if h.CSRC != nil {\n		clone.CSRC = make([]uint32, len(h.CSRC))", "	if len(h.CSRC) > 1 {\n		clone.CSRC = make([]uint32, len(h.CSRC))")
m("C20-2-clone-shares-last-extension-value", "packet.go", "			if e.payload != nil {\n				ext[i].payload = make([]byte, len(e.payload))", "			if e.payload != nil && (i == 0 || i < len(h.Extensions)-1) {\n				ext[i].payload = make([]byte, len(e.payload))")
# ---- C06 ----
m("C06-1-timestamp-not-advanced-without-packets", "packetizer.go", "	p.Timestamp += samples\n", "	if len(packets) != 0 {\n		p.Timestamp += samples\n	}\n")
m("C06-2-padding-reuses-sequence-number", "packetizer.go", "				SequenceNumber: p.Sequencer.NextSequenceNumber(),\n				Timestamp:      p.Timestamp, // Use latest timestamp", "				SequenceNumber: p.Sequencer.NextSequenceNumber() - uint16(i&1),\n				Timestamp:      p.Timestamp, // Use latest timestamp")
# ---- C08 / C09 / C10 / C15 (h264) ----
m("C10-1-fua-end-bit", "codecs/h264_packet.go", "} else if naluRemaining-currentFragmentSize == 0 {", "} else if naluRemaining-currentFragmentSize <= 1 {")
m("C08-1-g722-returns-input-when-it-fits", "codecs/g722_packet.go", "	o := make([]byte, len(payload))\n	copy(o, payload)\n\n	return append(out, o)", "	if len(out) == 0 && len(payload) > 8 {\n		return append(out, payload)\n	}\n	o := make([]byte, len(payload))\n	copy(o, payload)\n\n	return append(out, o)")
m("C08-2-vp8-last-fragment-over-mtu", "codecs/vp8_packet.go", "	maxFragmentSize := int(mtu) - usingHeaderSize\n", "	maxFragmentSize := int(mtu) - usingHeaderSize\n	if usingHeaderSize == vp8HeaderSize+3 && maxFragmentSize > 16 {\n		maxFragmentSize++\n	}\n")
m("C15-2-h264-start-fragment-keeps-buffer-in-avc-mode", "codecs/h264_packet.go", "		if payload[1]&fuStartBitmask != 0 {\n", "		if payload[1]&fuStartBitmask != 0 && !(p.IsAVC && len(p.fuaBuffer) == 2) {\n")
# ---- C11 / C12 ----
m("C11-1-picture-id-wrap-mask", "codecs/vp8_packet.go", "	p.pictureID &= 0x7FFF\n", "	p.pictureID &= 0x3FFF\n")
m("C11-2-decoder-15bit-high-bits", "codecs/vp8_packet.go", "p.PictureID = (uint16(payload[payloadIndex]&0x7F) << 8) | uint16(payload[payloadIndex+1])", "p.PictureID = (uint16(payload[payloadIndex]&0x3F) << 8) | uint16(payload[payloadIndex+1])")
m("C11-3-keyidx-without-reset", "codecs/vp8_packet.go", "		if p.K == 1 {\n			p.KEYIDX = payload[payloadIndex] & 0x1F\n		} else {\n			p.KEYIDX = 0\n		}\n", "		if p.K == 1 {\n			p.KEYIDX = payload[payloadIndex] & 0x1F\n		}\n")
m("C12-1-picture-id-wrap", "codecs/vp9_packet.go", "	if p.pictureID >= 0x8000 {", "	if p.pictureID > 0x8000 {")
m("C12-2-header-profile3-reserved-bit", "codecs/vp9/header.go", "	if h.Profile == 3 {\n		err = hasSpace(buf, pos, 1)\n		if err != nil {\n			return err\n		}\n		pos++\n	}\n", "	if h.Profile == 3 && false {\n		pos++\n	}\n")
m("C12-3-ss-height-low-byte", "codecs/vp9_packet.go", "			out[off] = byte(height & 0xFF)\n", "			out[off] = byte(width & 0xFF)\n")
# ---- C13 ----
m("C13-1-w-field-count", "codecs/av1_packet.go", "shouldUseWField := (isLast || toWrite >= freeSpace) && currentOBUCount < 3", "shouldUseWField := (isLast || toWrite >= freeSpace) && currentOBUCount < 4")
m("C13-2-leb128-read-mask", "codecs/av1/obu/leb128.go", "		// Discard the MSB\n		in >>= 8\n", "		// Discard the MSB\n		in >>= 8\n		if out > 1<<27 {\n			out &^= 1 << 6\n		}\n")
# ---- C14 ----
m("C14-1-ap-tid-of-first-unit", "codecs/h265_packet.go", "				if headerTID < tid {", "				if tid == uint8(math.MaxUint8) {")
m("C14-2-paci-phssize-mask", "codecs/h265_packet.go", "	const mask = (0b00000001 << 8) | 0b11110000\n\n	return uint8((p.paciHeaderFields & mask) >> 4)", "	const mask = (0b00000000 << 8) | 0b11110000\n\n	return uint8((p.paciHeaderFields & mask) >> 4)")
m("C14-3-fu-layer-bit-lost", "codecs/h265_packet.go", "out[0] = (out[0] & 0b10000001) | h265NaluFragmentationUnitType<<1", "out[0] = (out[0] & 0b10000000) | h265NaluFragmentationUnitType<<1")
# ---- C16 / C17 / C18 / C19 ----
m("C16-1-g711-boundary", "codecs/g711_packet.go", "for len(payload) > int(mtu) {", "for len(payload) >= int(mtu) && len(payload) > 1 {")
m("C16-2-opus-returns-input", "codecs/opus_packet.go", "	out := make([]byte, len(payload))\n	copy(out, payload)\n", "	out := payload\n	if len(payload) < 3 {\n		out = make([]byte, len(payload))\n		copy(out, payload)\n	}\n")
m("C17-1-playoutdelay-max-high-bits", "playoutdelayextension.go", "byte(p.MinDelay<<4) | byte(p.MaxDelay>>8),", "byte(p.MinDelay<<4) | byte(p.MaxDelay>>8)&0x7,")
m("C17-2-audiolevel-range", "audiolevelextension.go", "if a.Level > 127 {", "if a.Level > 128 {")
m("C18-1-estimate-wrap-comparison", "abssendtimeextension.go", "	if receiveNTP < ntp {", "	if receiveNTP>>14 <= ntp>>14 {")
m("C18-2-offset-fraction", "abscapturetimeextension.go", "msb := (((ns % 1e9) * (1 << 32)) / 1e9) & 0xFFFFFFFF", "msb := (((ns % 1e9) * (1 << 31)) / 5e8) & 0x7FFFFFFF")
m("C19-1-temporal-count-byte-boundary", "vlaextension.go", "				if temporalLayerIndex >= 4 {\n					temporalLayerIndex = 0\n					offset++\n				}\n				payload[offset] |=", "				if temporalLayerIndex > 4 {\n					temporalLayerIndex = 0\n					offset++\n				}\n				payload[offset] |=")
m("C19-2-height-plus-one", "vlaextension.go", "v.ActiveSpatialLayer[i].Height = int(binary.BigEndian.Uint16(ctx.payload[ctx.offset+2:])) + 1", "v.ActiveSpatialLayer[i].Height = int(binary.BigEndian.Uint16(ctx.payload[ctx.offset+2:]) + 1)")

def run(*a):
    return subprocess.run(a, capture_output=True, text=True)
if run("git", "-C", "/repo", "status", "--porcelain").stdout.strip():
    sys.exit("/repo not clean")
for name, path, old, new, count in M:
    s = open("/repo/" + path).read()
    if s.count(old) != count:
        print("SKIP", name, "pattern occurs", s.count(old), "times")
        continue
    open("/repo/" + path, "w").write(s.replace(old, new))
    d = run("git", "-C", "/repo", "diff").stdout
    b = subprocess.run("cd /repo && GOFLAGS=-mod=mod GOPROXY=off GOSUMDB=off GOTOOLCHAIN=local go build ./... 2>&1", shell=True, capture_output=True, text=True)
    run("git", "-C", "/repo", "checkout", "--", ".")
    if b.returncode != 0:
        print("NOBUILD", name, b.stdout[:200])
        continue
    open("/verif/mutants/" + name + ".patch", "w").write(d)
print("written", len(M))
