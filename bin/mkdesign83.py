#!/usr/bin/env python3
"""Writes / refreshes section 8.3 of DESIGN.md (syntactic mutation campaign) from
mutants/MUTATION_ANALYSIS.txt."""
import collections, re
p = '/verif/DESIGN.md'
s = open(p).read()
lines = [l for l in open('/verif/mutants/MUTATION_ANALYSIS.txt').read().strip().split('\n') if ' : ' in l]
tot = collections.Counter()
perfile = collections.defaultdict(collections.Counter)
for l in lines:
    tag, rest = l.split(' : ', 1)
    res = rest.split(' ')[0]
    tot[res] += 1
    perfile[tag.split(':')[0]][res] += 1
n = len(lines)
alive = tot['DETECTED'] + tot['SURVIVED']
rows = ["| file | mutants | do not compile | killed by the repository's tests | detected by a check | survived |", "|---|---|---|---|---|---|"]
for f in sorted(perfile):
    c = perfile[f]
    rows.append("| %s | %d | %d | %d | %d | %d |" % (f, sum(c.values()), c['COMPILE-FAIL'], c['TESTS-FAIL'], c['DETECTED'], c['SURVIVED']))
sec = '''### 8.3 Syntactic mutation campaign (`bin/mutate`, results in `mutants/MUTATION_ANALYSIS.txt`)

Independent of any author's imagination: every application of a small set of syntactic operators
(relational and logical operator swaps, `+`/`-`, every integer constant +1 and -1, deletion of an
assignment / call / increment statement) to the 25 non-test source files the properties are
anchored in, except `String()` methods and the stand-alone views' `Set`/`Del` (no property speaks
about them). Each mutant is applied to a scratch copy of /repo's HEAD, screened with the
repository's own tests, and - if those still pass - run against the quick tier of every property
anchored in that file until one reports a violation.

%d mutants: %d do not compile, %d are killed by the repository's tests, **%d are detected by a
check, %d survive** (%.0f%% of the %d that the repository's tests let through are detected).

%s

Every survivor was read. They fall into these classes, none of which breaks a property as stated:

* **equivalent code**: a mask with an extra low bit that the following shift discards
  (`& 0x81 >> 7`), a slice bound wider than what is read from it (`buf[0:9]` for `PutUint64`), an
  array one larger than its index range, `<` for `<=` where a later check rejects the same input,
  a loop bound one past a position the loop body skips, the first of two identical assignments;
* **a value the properties do not fix**: the count returned next to an error, which of two errors
  is reported, sub-nanosecond bits of a time conversion (the text allows 1 ns), the default of
  fields the text does not mention (VP9 subsampling flags, the AV1 N bit, `AV1Packet.Unmarshal`'s
  return value), DON *values* (placement only is demanded), error-path state;
* **another legal choice**: more room reserved than needed (fragments stay within the MTU), a
  unit of exactly MTU bytes fragmented instead of sent whole, other-but-valid aggregation
  decisions, padding packets of 254 bytes, a random start drawn from a smaller range, the two-byte
  profile chosen for a 16-byte value;
* **inputs outside the property's domain**: NAL type 0, one-byte NAL units, FU-B, VP9 SID 5,
  zero-length units inside a STAP-A, a truncated resolution block of a VLA being accepted (the text
  demands no panic and no over-consumption there, not rejection).

Four survivors were *not* of this kind and led to stronger checks; they are now detected (and kept
as own mutants, 8.2): the room for the abs-send-time extension one byte short (`C06-3`), the
hold-back state of the H264 payloader not cleared after a STAP-A (`C10-5`, `C10-6`), a stand-alone
view refusing a destination of exactly `MarshalSize()` bytes (`C03-4`), and the single-NAL-unit
decoder of H265 accepting a header-only payload (`C14-5`).

A fifth was first read as equivalent and is not: deleting the statement by which the AV1
depacketizer drops its fragment buffer on a packet with Z=0. The reading was that the buffer is
overwritten anyway when the packet's last element is stored; a seeded change of round 17
(`C15-r17-2`) showed the case where nothing is stored - the last element is announced as the start
of a fragment and has no bytes - and the C15 check now builds that frame by hand and detects the
deletion.

The campaign ran against the harness as it stood at its start; survivors in files whose checks
were strengthened afterwards were re-run. An earlier run of the campaign had to be discarded: it
read the originals from /repo's working tree while seeded changes were being applied there, so
some mutants were built from patched files. The driver now works on snapshots of /repo's HEAD and
of the harness.

''' % (n, tot['COMPILE-FAIL'], tot['TESTS-FAIL'], tot['DETECTED'], tot['SURVIVED'], 100.0 * tot['DETECTED'] / max(alive, 1), alive, "\n".join(rows))
if "### 8.3 Syntactic mutation campaign" in s:
    i = s.index("### 8.3 Syntactic mutation campaign")
    j = s.index("### 8.4 Changes that keep the properties")
    s = s[:i] + sec + s[j:]
else:
    j = s.index("### 8.4 Changes that keep the properties")
    s = s[:j] + sec + s[j:]
open(p, 'w').write(s)
print("8.3 written:", dict(tot))
