// Package mc is a stateless explorer for nondeterministic Go programs: a harness
// asks the context for every decision (Pick), the explorer enumerates the tree of
// answer sequences depth-first, every path exactly once, sharded over worker
// processes by the prefixes of a fixed depth.
package mc

import (
	"fmt"
	"runtime/debug"
	"strings"
)

// Scenario is one nondeterministic program: every run of Run with one sequence of
// answers is one execution.
type Scenario struct {
	Name       string
	Tiers      string // "q", "t" or "qt"
	ShardDepth int    // choice depth at which executions are dealt to workers (0 = 2)
	Run        func(c *Ctx)
}

// Property groups the scenarios that decide one property.
type Property struct {
	ID          string
	Rule        string
	Assumptions []string
	Scenarios   []Scenario
}

// Violation is one failed oracle clause on one execution.
type Violation struct {
	Scenario     string   `json:"scenario"`
	Clause       string   `json:"clause"`
	Msg          string   `json:"msg"`
	Path         []int    `json:"path"`
	Pre          [][]int  `json:"pre,omitempty"`
	Notes        []string `json:"notes,omitempty"`
	Reproducible bool     `json:"reproducible"`
	Finding      bool     `json:"finding,omitempty"`
}

type abortExec struct{}
type skipShard struct{}
type pruneExec struct{}

// EngineError is a failure of the machinery itself (never a verdict).
type EngineError struct{ Msg string }

func (e EngineError) Error() string { return "engine error: " + e.Msg }

// Ctx is handed to a scenario for one execution.
type Ctx struct {
	path      []int
	arity     []int
	pos       int
	replayLen int // arities below this index were recorded by an earlier execution

	shardDepth int
	shardIdx   int
	shardN     int
	newPrefix  bool
	prefixSeq  int64
	owned      bool

	tier     string
	verbose  bool
	notes    []string
	ops      int64
	cases    int64
	outcomes []string
	nontriv  bool
	viol     *Violation
	findings []Violation
	devBound map[string]int
	devUsed  map[string]int
	scenario string
	// Scratch lets a scenario keep allocation-free state between executions.
	Scratch interface{}
}

func (c *Ctx) reset() {
	c.pos = 0
	c.notes = c.notes[:0]
	c.ops, c.cases = 0, 0
	c.outcomes = c.outcomes[:0]
	c.nontriv = false
	c.viol = nil
	c.findings = c.findings[:0]
	for k := range c.devUsed {
		delete(c.devUsed, k)
	}
	for k := range c.devBound {
		delete(c.devBound, k)
	}
}

func (c *Ctx) claimPrefix() {
	if !c.newPrefix {
		return
	}
	c.newPrefix = false
	c.owned = c.shardN <= 1 || int(c.prefixSeq%int64(c.shardN)) == c.shardIdx
	c.prefixSeq++
}

// Pick returns a value in [0,n); every value is explored.
func (c *Ctx) Pick(n int) int {
	if n <= 0 {
		panic(EngineError{fmt.Sprintf("Pick(%d) in scenario %s", n, c.scenario)})
	}
	if n == 1 {
		return 0
	}
	if c.pos < len(c.path) {
		if c.pos < c.replayLen && c.arity[c.pos] != n {
			panic(EngineError{fmt.Sprintf("replay divergence in %s at depth %d: arity %d, recorded %d (nondeterminism leak)",
				c.scenario, c.pos, n, c.arity[c.pos])})
		}
		c.arity[c.pos] = n
		v := c.path[c.pos]
		if v >= n {
			panic(EngineError{fmt.Sprintf("replay divergence in %s at depth %d: choice %d out of range %d", c.scenario, c.pos, v, n)})
		}
		c.pos++
		c.deal()
		return v
	}
	c.path = append(c.path, 0)
	c.arity = append(c.arity, n)
	c.pos++
	c.deal()
	return 0
}

// deal assigns the execution to a worker as soon as its sharding prefix is complete;
// executions that belong to another worker end here.
func (c *Ctx) deal() {
	if c.pos == c.shardDepth {
		c.claimPrefix()
		if !c.owned {
			panic(skipShard{})
		}
	}
}

// Bool explores both answers.
func (c *Ctx) Bool() bool { return c.Pick(2) == 1 }

// SetDev bounds the number of non-default answers PickDev gives inside group.
func (c *Ctx) SetDev(group string, bound int) {
	if c.devBound == nil {
		c.devBound = map[string]int{}
		c.devUsed = map[string]int{}
	}
	c.devBound[group] = bound
}

// PickDev is Pick whose answer 0 is the default; once the group's deviation
// budget is used up it answers 0 without branching.
func (c *Ctx) PickDev(group string, n int) int {
	if c.devUsed[group] >= c.devBound[group] {
		return 0
	}
	v := c.Pick(n)
	if v != 0 {
		c.devUsed[group]++
	}
	return v
}

// From picks one element of xs.
func From[T any](c *Ctx, xs []T) T { return xs[c.Pick(len(xs))] }

// FromDev picks one element of xs, xs[0] being the default of the group.
func FromDev[T any](c *Ctx, group string, xs []T) T { return xs[c.PickDev(group, len(xs))] }

// Tier is "quick" or "thorough".
func (c *Ctx) Tier() string { return c.tier }

// Thorough reports whether the thorough tier runs.
func (c *Ctx) Thorough() bool { return c.tier == "thorough" }

// Ops counts library operations invoked by this execution.
func (c *Ctx) Ops(n int) { c.ops += int64(n) }

// Cases counts additional cases swept inside this execution (bulk sub-domains).
func (c *Ctx) Cases(n int) { c.cases += int64(n) }

// Outcome labels the execution with an outcome class.
func (c *Ctx) Outcome(label string) { c.outcomes = append(c.outcomes, label) }

// NonTrivial marks the execution as non-trivial by the property's rule.
func (c *Ctx) NonTrivial() { c.nontriv = true }

// Verbose is true when notes are kept (samples and replays).
func (c *Ctx) Verbose() bool { return c.verbose }

// Notef describes the case; kept only when Verbose.
func (c *Ctx) Notef(format string, a ...interface{}) {
	if c.verbose {
		c.notes = append(c.notes, fmt.Sprintf(format, a...))
	}
}

// Failf records a violation of clause and ends the execution.
func (c *Ctx) Failf(clause, format string, a ...interface{}) {
	c.viol = &Violation{Scenario: c.scenario, Clause: clause, Msg: fmt.Sprintf(format, a...)}
	panic(abortExec{})
}

// Check fails clause unless ok.
func (c *Ctx) Check(ok bool, clause, format string, a ...interface{}) {
	if !ok {
		c.Failf(clause, format, a...)
	}
}

// Finding records behaviour that matches the defect model of a known finding.
// It does not end the execution.
func (c *Ctx) Finding(sig, format string, a ...interface{}) {
	c.findings = append(c.findings, Violation{Scenario: c.scenario, Clause: sig, Msg: fmt.Sprintf(format, a...), Finding: true})
}

// Abort ends the execution without a verdict (after a Finding that makes the
// remaining clauses meaningless).
func (c *Ctx) Abort() { panic(abortExec{}) }

// Path returns a copy of the choices of the current execution.
func (c *Ctx) Path() []int { return append([]int(nil), c.path[:c.pos]...) }

type execResult struct {
	skipped bool
	pruned  bool
	viol    *Violation
}

// runOnce executes the scenario once with the current path.
func (c *Ctx) runOnce(run func(*Ctx)) (res execResult) {
	c.reset()
	defer func() {
		r := recover()
		if r == nil {
			return
		}
		switch v := r.(type) {
		case abortExec:
			res.viol = c.viol
		case skipShard:
			res.skipped = true
		case pruneExec:
			res.pruned = true
		case EngineError:
			panic(v)
		default:
			st := string(debug.Stack())
			c.viol = &Violation{Scenario: c.scenario, Clause: "panic", Msg: fmt.Sprintf("panic: %v\n%s", r, trimStack(st))}
			res.viol = c.viol
		}
	}()
	run(c)
	res.viol = c.viol
	return res
}

func trimStack(st string) string {
	lines := strings.Split(st, "\n")
	var out []string
	seenPanic := false
	for i := 0; i < len(lines); i++ {
		l := lines[i]
		if strings.HasPrefix(l, "panic(") {
			seenPanic = true
			i++
			continue
		}
		if !seenPanic {
			continue
		}
		if strings.Contains(l, "verif/mc.(*Ctx).runOnce") {
			break
		}
		out = append(out, l)
		if len(out) >= 24 {
			break
		}
	}
	return strings.Join(out, "\n")
}

// Barrier deals the execution to its worker now if the shard depth has been reached
// (used before code that must not be abandoned half-way, e.g. a running scheduler).
func (c *Ctx) Barrier() {
	if c.pos >= c.shardDepth && c.shardDepth >= 0 {
		c.claimPrefix()
		if !c.owned {
			panic(skipShard{})
		}
	}
}

// NewNode reports whether the next Pick opens a choice-tree node that no earlier
// execution has visited (false while a recorded prefix is being replayed).
func (c *Ctx) NewNode() bool { return c.pos >= len(c.path) }

// Prune ends the execution without a verdict because the state it has reached was
// reached before (by an execution whose continuations are all explored): the execution
// is counted as pruned, not as a complete trace.
func (c *Ctx) Prune() { panic(pruneExec{}) }
