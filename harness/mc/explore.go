package mc

import (
	"encoding/json"
	"fmt"
	"os"
	"runtime/metrics"
	"sort"
	"sync/atomic"
	"time"
)

// Sample is one explored case written out for the evidence file.
type Sample struct {
	Scenario string   `json:"scenario"`
	Path     []int    `json:"path"`
	Notes    []string `json:"notes"`
}

// ScenarioStats is what one worker measured on one scenario.
type ScenarioStats struct {
	Name        string           `json:"name"`
	Executions  int64            `json:"executions"`
	Cases       int64            `json:"cases"`
	States      int64            `json:"states"`
	Transitions int64            `json:"transitions"`
	Ops         int64            `json:"ops"`
	NonTrivial  int64            `json:"nontrivial"`
	Prefixes    int64            `json:"prefixes"`
	Pruned      int64            `json:"pruned"`
	MaxDepth    int              `json:"max_depth"`
	Outcomes    map[string]int64 `json:"outcomes"`
	Samples     []Sample         `json:"samples,omitempty"`
	Complete    bool             `json:"complete"`
	WallS       float64          `json:"wall_s"`
}

// FindingAgg aggregates the executions attributed to one known-finding signature.
type FindingAgg struct {
	Count int64     `json:"count"`
	First Violation `json:"first"`
}

// WorkerResult is the partial result file of one worker process.
type WorkerResult struct {
	Worker     int                    `json:"worker"`
	Scenarios  []ScenarioStats        `json:"scenarios"`
	Violations []Violation            `json:"violations"`
	ViolCount  int64                  `json:"viol_count"`
	Findings   map[string]*FindingAgg `json:"findings"`
	Engine     string                 `json:"engine_error,omitempty"`
	WallS      float64                `json:"wall_s"`
}

type worker struct {
	idx, n    int
	tier      string
	deadline  time.Time
	keepGoing bool
	res       *WorkerResult
	out       string
	progress  atomic.Int64
	cur       atomic.Pointer[Ctx]
}

func sampleWanted(k int64) bool {
	if k < 2 {
		return true
	}
	// powers of 8 and their doubles keep a handful of later cases
	for p := int64(8); p <= k; p *= 8 {
		if k == p {
			return true
		}
	}
	return false
}

func (w *worker) flush() {
	b, _ := json.Marshal(w.res)
	tmp := w.out + ".part"
	_ = os.WriteFile(tmp, b, 0o644)
	_ = os.Rename(tmp, w.out)
}

func (w *worker) monitor() {
	last := int64(-1)
	lastChange := time.Now()
	sample := []metrics.Sample{{Name: "/memory/classes/heap/objects:bytes"}}
	for {
		time.Sleep(500 * time.Millisecond)
		p := w.progress.Load()
		if p != last {
			last, lastChange = p, time.Now()
		}
		metrics.Read(sample)
		heap := sample[0].Value.Uint64()
		hang := time.Since(lastChange) > 60*time.Second
		if !hang && heap < 8<<30 {
			continue
		}
		c := w.cur.Load()
		v := Violation{Clause: "hang", Msg: "execution did not finish within 60 s", Reproducible: false}
		if !hang {
			v.Clause, v.Msg = "runaway-allocation", fmt.Sprintf("execution holds %d bytes of heap", heap)
		}
		if c != nil {
			v.Scenario = c.scenario
			v.Path = append([]int(nil), c.path...) // racy read of a stuck execution: diagnostic only
		}
		w.res.Violations = append(w.res.Violations, v)
		w.res.ViolCount++
		w.flush()
		os.Exit(3)
	}
}

// explore runs the DFS of one scenario restricted to this worker's shard.
func (w *worker) explore(sc Scenario) {
	st := ScenarioStats{Name: sc.Name, Outcomes: map[string]int64{}}
	start := time.Now()
	sd := sc.ShardDepth
	if sd == 0 {
		sd = 2
	}
	c := &Ctx{shardDepth: sd, shardIdx: w.idx, shardN: w.n, tier: w.tier, scenario: sc.Name, newPrefix: true, owned: true}
	w.cur.Store(c)
	var recent [][]int
	backtrack := -1 // index whose choice was advanced for this execution
	stop := false
	distinctClauses := map[string]bool{}
	for !stop {
		c.replayLen = backtrack + 1
		c.verbose = sampleWanted(st.Executions)
		res := c.runOnce(sc.Run)
		w.progress.Add(1)
		if !res.skipped {
			c.claimPrefix()
			if c.pos < c.replayLen && res.viol == nil {
				res.viol = &Violation{Scenario: sc.Name, Clause: "nondeterministic-replay",
					Msg: fmt.Sprintf("execution ended at depth %d before the replayed prefix of length %d was consumed: behaviour depends on something other than the choices (state shared between executions?)", c.pos, c.replayLen)}
			}
		}
		if res.skipped || !c.owned {
			// not this worker's prefix: drop everything below the shard depth
			if len(c.path) > sd {
				c.path, c.arity = c.path[:sd], c.arity[:sd]
			}
			if c.pos < len(c.path) {
				c.path, c.arity = c.path[:c.pos], c.arity[:c.pos]
			}
		} else if res.pruned {
			c.path, c.arity = c.path[:c.pos], c.arity[:c.pos]
			st.Pruned++
			newNodes := int64(c.pos - (backtrack + 1))
			if newNodes > 0 {
				st.States += newNodes
				st.Transitions += newNodes
			}
		} else {
			c.path, c.arity = c.path[:c.pos], c.arity[:c.pos]
			st.Executions++
			st.Cases += 1 + c.cases
			st.Ops += c.ops
			newNodes := int64(c.pos - (backtrack + 1))
			if newNodes < 0 {
				newNodes = 0
			}
			st.States += newNodes + 1
			st.Transitions += newNodes + 1 + c.ops
			if c.pos > st.MaxDepth {
				st.MaxDepth = c.pos
			}
			if c.nontriv {
				st.NonTrivial++
			}
			for _, o := range c.outcomes {
				if len(st.Outcomes) < 4096 || st.Outcomes[o] > 0 {
					st.Outcomes[o]++
				}
			}
			if c.verbose && len(st.Samples) < 8 && len(c.notes) > 0 {
				st.Samples = append(st.Samples, Sample{Scenario: sc.Name, Path: c.Path(), Notes: append([]string(nil), c.notes...)})
			}
			for _, f := range c.findings {
				agg := w.res.Findings[f.Clause]
				if agg == nil {
					f.Path = c.Path()
					agg = &FindingAgg{First: f}
					w.res.Findings[f.Clause] = agg
				}
				agg.Count++
			}
			if res.viol != nil {
				w.res.ViolCount++
				key := sc.Name + "|" + res.viol.Clause
				if !distinctClauses[key] {
					distinctClauses[key] = true
					v := *res.viol
					v.Path = c.Path()
					w.confirm(sc, &v, recent)
					w.res.Violations = append(w.res.Violations, v)
					w.flush()
				}
				if !w.keepGoing || len(distinctClauses) >= 20 {
					stop = true
				}
			}
			if len(recent) == 3 {
				recent = recent[1:]
			}
			recent = append(recent, c.Path())
		}
		// odometer step
		backtrack = -1
		for i := len(c.path) - 1; i >= 0; i-- {
			if c.path[i]+1 < c.arity[i] {
				c.path[i]++
				c.path, c.arity = c.path[:i+1], c.arity[:i+1]
				backtrack = i
				break
			}
		}
		if backtrack < 0 {
			st.Complete = !stop
			break
		}
		if backtrack < sd {
			c.newPrefix = true
		}
		if st.Executions&0x3ff == 0 && time.Now().After(w.deadline) {
			break
		}
	}
	st.Prefixes = c.prefixSeq
	st.WallS = time.Since(start).Seconds()
	w.res.Scenarios = append(w.res.Scenarios, st)
	w.flush()
}

// confirm re-executes a failing path and records whether it fails identically.
func (w *worker) confirm(sc Scenario, v *Violation, recent [][]int) {
	same := 0
	for i := 0; i < 5; i++ {
		r, notes := replayPath(sc, w.tier, v.Path)
		if r != nil && r.Clause == v.Clause {
			same++
			if i == 0 {
				v.Notes = notes
				v.Msg = r.Msg
			}
		}
	}
	v.Reproducible = same == 5
	if !v.Reproducible {
		v.Pre = recent
		v.Msg += fmt.Sprintf("\n[re-executed 5x from the recorded path alone: failed identically %d times; the behaviour depends on preceding executions in the same process (state shared between calls); preceding paths recorded]", same)
	}
}

// replayPath runs one recorded path verbosely.
func replayPath(sc Scenario, tier string, path []int) (*Violation, []string) {
	c := &Ctx{shardDepth: -1, shardN: 1, tier: tier, scenario: sc.Name, owned: true, verbose: true}
	c.path = append([]int(nil), path...)
	c.arity = make([]int, len(path))
	c.replayLen = 0
	res := c.runOnce(sc.Run)
	notes := append([]string(nil), c.notes...)
	if res.viol != nil {
		v := *res.viol
		return &v, notes
	}
	for _, f := range c.findings {
		notes = append(notes, "finding "+f.Clause+": "+f.Msg)
	}
	return nil, notes
}

func runWorker(p Property, tier string, idx, n int, deadline time.Time, out string) {
	w := &worker{idx: idx, n: n, tier: tier, deadline: deadline, out: out, keepGoing: os.Getenv("VERIF_KEEP_GOING") != ""}
	w.res = &WorkerResult{Worker: idx, Findings: map[string]*FindingAgg{}}
	start := time.Now()
	go w.monitor()
	func() {
		defer func() {
			if r := recover(); r != nil {
				if e, ok := r.(EngineError); ok {
					w.res.Engine = e.Msg
					return
				}
				panic(r)
			}
		}()
		want := tier[:1]
		var todo []Scenario
		for _, sc := range p.Scenarios {
			if containsTier(sc.Tiers, want) {
				todo = append(todo, sc)
			}
		}
		for i, sc := range todo {
			now := time.Now()
			if now.After(deadline) {
				w.res.Scenarios = append(w.res.Scenarios, ScenarioStats{Name: sc.Name, Outcomes: map[string]int64{}})
				continue
			}
			// a scenario may use its fair share of what is left, so that one that blows up
			// (under a change that breaks the property) cannot starve the later ones
			share := deadline.Sub(now) / time.Duration(len(todo)-i)
			if min := 2 * time.Second; share < min {
				share = min
			}
			w.deadline = now.Add(share)
			w.explore(sc)
		}
		w.deadline = deadline
	}()
	w.res.WallS = time.Since(start).Seconds()
	w.flush()
}

func containsTier(tiers, t string) bool {
	if tiers == "" {
		return true
	}
	for i := 0; i < len(tiers); i++ {
		if tiers[i:i+1] == t {
			return true
		}
	}
	return false
}

func sortedKeys(m map[string]int64) []string {
	ks := make([]string, 0, len(m))
	for k := range m {
		ks = append(ks, k)
	}
	sort.Strings(ks)
	return ks
}
