package mc

import (
	"bufio"
	"bytes"
	"crypto/sha1"
	"encoding/json"
	"flag"
	"fmt"
	"os"
	"os/exec"
	"path/filepath"
	"runtime"
	"strconv"
	"strings"
	"sync"
	"time"
)

// ReplayFile is the artefact written for every reported violation.
type ReplayFile struct {
	Property  string    `json:"property"`
	Tier      string    `json:"tier"`
	Violation Violation `json:"violation"`
	HowTo     string    `json:"how_to_replay"`
}

type knownFinding struct {
	Prop, Sig, Text string
}

func loadKnownFindings(root string) []knownFinding {
	var out []knownFinding
	f, err := os.Open(filepath.Join(root, "KNOWN_FINDINGS.txt"))
	if err != nil {
		return nil
	}
	defer f.Close()
	sc := bufio.NewScanner(f)
	for sc.Scan() {
		l := strings.TrimSpace(sc.Text())
		if !strings.HasPrefix(l, "finding:") {
			continue // "fixed:" lines and comments suppress nothing
		}
		fs := strings.Fields(strings.TrimPrefix(l, "finding:"))
		var k knownFinding
		var rest []string
		for _, x := range fs {
			switch {
			case strings.HasPrefix(x, "property=") && k.Prop == "":
				k.Prop = strings.TrimPrefix(x, "property=")
			case strings.HasPrefix(x, "sig=") && k.Sig == "":
				k.Sig = strings.TrimPrefix(x, "sig=")
			default:
				rest = append(rest, x)
			}
		}
		k.Text = strings.Join(rest, " ")
		if k.Prop != "" && k.Sig != "" {
			out = append(out, k)
		}
	}
	return out
}

// Main is the entry point of the check binary.
func Main(props []Property) {
	var (
		propID  = flag.String("prop", "", "property id")
		tier    = flag.String("tier", "quick", "quick|thorough")
		worker  = flag.String("worker", "", "i/n (internal)")
		out     = flag.String("out", "", "worker result file (internal)")
		dl      = flag.Int64("deadline", 0, "unix deadline (internal)")
		replay  = flag.String("replay", "", "replay artefact to re-execute")
		root    = flag.String("root", "/verif", "verif root")
		workers = flag.Int("workers", 0, "worker processes (default: cores)")
		budget  = flag.Int("budget", 0, "exploration budget in seconds (default per tier)")
		list    = flag.Bool("list", false, "list properties and scenarios")
		attach  = flag.String("attach", "", "JSON file merged into the evidence coverage (supplementary passes)")
	)
	flag.Parse()
	if *list {
		for _, p := range props {
			for _, s := range p.Scenarios {
				fmt.Printf("%s %s %s\n", p.ID, s.Tiers, s.Name)
			}
		}
		return
	}
	var prop *Property
	for i := range props {
		if props[i].ID == *propID {
			prop = &props[i]
		}
	}
	if *replay != "" {
		os.Exit(doReplay(props, *replay))
	}
	if prop == nil {
		fmt.Fprintf(os.Stderr, "unknown property %q\n", *propID)
		os.Exit(2)
	}
	if *worker != "" {
		parts := strings.Split(*worker, "/")
		i, _ := strconv.Atoi(parts[0])
		n, _ := strconv.Atoi(parts[1])
		runWorker(*prop, *tier, i, n, time.Unix(*dl, 0), *out)
		return
	}
	os.Exit(drive(*prop, *tier, *root, *workers, *budget, *attach))
}

func doReplay(props []Property, file string) int {
	b, err := os.ReadFile(file)
	if err != nil {
		fmt.Fprintln(os.Stderr, err)
		return 2
	}
	var rf ReplayFile
	if err := json.Unmarshal(b, &rf); err != nil {
		fmt.Fprintln(os.Stderr, err)
		return 2
	}
	for _, p := range props {
		if p.ID != rf.Property {
			continue
		}
		for _, sc := range p.Scenarios {
			if sc.Name != rf.Violation.Scenario {
				continue
			}
			for _, pre := range rf.Violation.Pre {
				replayPath(sc, rf.Tier, pre)
			}
			v, notes := replayPath(sc, rf.Tier, rf.Violation.Path)
			for _, n := range notes {
				fmt.Println("  ", n)
			}
			if v != nil {
				fmt.Printf("clause %s: %s\n", v.Clause, v.Msg)
				fmt.Printf("VIOLATION property=%s replay=%s\n", p.ID, file)
				return 1
			}
			fmt.Println("replayed path: no violation")
			return 0
		}
	}
	fmt.Fprintln(os.Stderr, "scenario not found")
	return 2
}

func drive(prop Property, tier, root string, nw, budget int, attach string) int {
	start := time.Now()
	if nw == 0 {
		nw = runtime.NumCPU()
		if nw > 16 {
			nw = 16
		}
	}
	if budget == 0 {
		if s := os.Getenv("VERIF_BUDGET_S"); s != "" {
			budget, _ = strconv.Atoi(s)
		}
	}
	if budget == 0 {
		// budgets are a safety net, not a target: on the unchanged tree every quick tier ends
		// well inside it; each scenario may use its fair share of what is left
		budget = 240
		if tier == "thorough" {
			budget = 1500
		}
	}
	seed, _ := strconv.Atoi(os.Getenv("VERIF_SEED"))
	deadline := time.Now().Add(time.Duration(budget) * time.Second)
	tmp, err := os.MkdirTemp("", "verif-"+prop.ID+"-")
	if err != nil {
		fmt.Fprintln(os.Stderr, err)
		return 2
	}
	defer os.RemoveAll(tmp)
	self, _ := os.Executable()
	results := make([]*WorkerResult, nw)
	crashes := make([]string, nw)
	var wg sync.WaitGroup
	for i := 0; i < nw; i++ {
		wg.Add(1)
		go func(i int) {
			defer wg.Done()
			outf := filepath.Join(tmp, fmt.Sprintf("w%d.json", i))
			cmd := exec.Command(self, "--prop", prop.ID, "--tier", tier, "--worker", fmt.Sprintf("%d/%d", i, nw),
				"--out", outf, "--deadline", strconv.FormatInt(deadline.Unix(), 10))
			cmd.Env = append(os.Environ(), "GOMAXPROCS=2")
			var stderr bytes.Buffer
			cmd.Stderr = &stderr
			cmd.Stdout = &stderr
			runErr := cmd.Run()
			b, err := os.ReadFile(outf)
			if err == nil {
				var r WorkerResult
				if json.Unmarshal(b, &r) == nil {
					results[i] = &r
				}
			}
			if runErr != nil {
				if ee, ok := runErr.(*exec.ExitError); !ok || ee.ExitCode() != 3 || results[i] == nil {
					tail := stderr.String()
					if len(tail) > 3000 {
						tail = tail[:3000]
					}
					crashes[i] = fmt.Sprintf("worker %d: %v\n%s", i, runErr, tail)
				}
			}
		}(i)
	}
	wg.Wait()

	// merge
	type scAgg struct {
		ScenarioStats
		workersComplete int
	}
	var order []string
	aggs := map[string]*scAgg{}
	var viols []Violation
	var violCount int64
	findings := map[string]*FindingAgg{}
	var engineErrs []string
	for i, r := range results {
		if crashes[i] != "" {
			c := crashes[i]
			if strings.Contains(c, "stack overflow") || strings.Contains(c, "goroutine stack exceeds") || strings.Contains(c, "out of memory") {
				viols = append(viols, Violation{Clause: "fatal", Msg: c})
				violCount++
			} else {
				engineErrs = append(engineErrs, c)
			}
		}
		if r == nil {
			continue
		}
		if r.Engine != "" {
			engineErrs = append(engineErrs, fmt.Sprintf("worker %d: %s", i, r.Engine))
		}
		for _, s := range r.Scenarios {
			a := aggs[s.Name]
			if a == nil {
				a = &scAgg{}
				a.Name = s.Name
				a.Outcomes = map[string]int64{}
				aggs[s.Name] = a
				order = append(order, s.Name)
			}
			a.Executions += s.Executions
			a.Cases += s.Cases
			a.States += s.States
			a.Transitions += s.Transitions
			a.Ops += s.Ops
			a.NonTrivial += s.NonTrivial
			a.Pruned += s.Pruned
			if s.Prefixes > a.Prefixes {
				a.Prefixes = s.Prefixes
			}
			if s.MaxDepth > a.MaxDepth {
				a.MaxDepth = s.MaxDepth
			}
			if s.WallS > a.WallS {
				a.WallS = s.WallS
			}
			for k, v := range s.Outcomes {
				a.Outcomes[k] += v
			}
			if len(a.Samples) < 3 {
				for _, sm := range s.Samples {
					if len(a.Samples) < 3 {
						a.Samples = append(a.Samples, sm)
					}
				}
			}
			if s.Complete {
				a.workersComplete++
			}
		}
		viols = append(viols, r.Violations...)
		violCount += r.ViolCount
		for sig, f := range r.Findings {
			if g := findings[sig]; g == nil {
				cp := *f
				findings[sig] = &cp
			} else {
				g.Count += f.Count
			}
		}
	}
	if len(engineErrs) > 0 {
		for _, e := range engineErrs {
			fmt.Fprintln(os.Stderr, "ENGINE-ERROR:", e)
		}
		fmt.Println("ENGINE-ERROR property=" + prop.ID)
		return 2
	}

	// findings: listed ones are reported as KNOWN-FINDING, others are violations
	known := loadKnownFindings(root)
	var knownLines []string
	for sig, f := range findings {
		listed := false
		for _, k := range known {
			if k.Prop == prop.ID && k.Sig == sig {
				listed = true
				knownLines = append(knownLines, fmt.Sprintf("KNOWN-FINDING: property=%s sig=%s %s (%d explored cases; e.g. %s)", prop.ID, sig, k.Text, f.Count, oneLine(f.First.Msg)))
			}
		}
		if !listed {
			v := f.First
			v.Clause = "unlisted-finding:" + sig
			v.Reproducible = true
			viols = append(viols, v)
			violCount += f.Count
		}
	}

	exhaustive := true
	var tot ScenarioStats
	tot.Outcomes = map[string]int64{}
	var scen []map[string]interface{}
	var samples []interface{}
	for _, name := range order {
		a := aggs[name]
		complete := a.workersComplete == nw
		if !complete {
			exhaustive = false
		}
		tot.Executions += a.Executions
		tot.Cases += a.Cases
		tot.States += a.States
		tot.Transitions += a.Transitions
		tot.Ops += a.Ops
		tot.NonTrivial += a.NonTrivial
		if a.MaxDepth > tot.MaxDepth {
			tot.MaxDepth = a.MaxDepth
		}
		for k, v := range a.Outcomes {
			tot.Outcomes[name+":"+k] += v
		}
		oc := map[string]int64{}
		ks := sortedKeys(a.Outcomes)
		for i, k := range ks {
			if i < 40 {
				oc[k] = a.Outcomes[k]
			}
		}
		scen = append(scen, map[string]interface{}{
			"name": name, "executions": a.Executions, "cases": a.Cases, "states": a.States, "transitions": a.Transitions,
			"library_ops": a.Ops, "nontrivial": a.NonTrivial, "pruned_at_revisited_state": a.Pruned, "shard_prefixes": a.Prefixes, "max_depth": a.MaxDepth,
			"outcome_classes": len(a.Outcomes), "outcomes": oc, "complete": complete, "wall_s": round2(a.WallS),
		})
		for _, sm := range a.Samples {
			samples = append(samples, sm)
		}
	}
	if len(samples) == 0 {
		samples = append(samples, "no sample notes recorded")
	}

	// replay artefacts
	exit := 0
	var vioLines []string
	if len(viols) > 0 {
		exit = 1
		_ = os.MkdirAll(filepath.Join(root, "replays"), 0o755)
		seen := map[string]bool{}
		for _, v := range viols {
			key := v.Scenario + "|" + v.Clause
			if seen[key] {
				continue
			}
			seen[key] = true
			rf := ReplayFile{Property: prop.ID, Tier: tier, Violation: v}
			h := sha1.Sum([]byte(fmt.Sprint(prop.ID, v.Scenario, v.Clause, v.Path)))
			path := filepath.Join(root, "replays", fmt.Sprintf("%s-%x.json", prop.ID, h[:5]))
			rf.HowTo = fmt.Sprintf("cd %s && bin/check %s --replay %s", root, prop.ID, path)
			b, _ := json.MarshalIndent(rf, "", " ")
			_ = os.WriteFile(path, b, 0o644)
			fmt.Printf("--- violation in %s, clause %s (reproducible=%v)\n", v.Scenario, v.Clause, v.Reproducible)
			for _, n := range v.Notes {
				fmt.Println("    ", n)
			}
			fmt.Println("    ", v.Msg)
			vioLines = append(vioLines, fmt.Sprintf("VIOLATION property=%s replay=%s", prop.ID, path))
		}
	}

	ev := map[string]interface{}{
		"property_id": prop.ID,
		"tier":        tier,
		"seed":        seed,
		"level":       "model_checking",
		"coverage": map[string]interface{}{
			"states":                        tot.States,
			"transitions":                   tot.Transitions,
			"traces_validated_against_impl": tot.Executions,
			"evaluations":                   tot.Cases,
			"executions":                    tot.Executions,
			"library_ops":                   tot.Ops,
			"distinct_nontrivial":           tot.NonTrivial,
			"distinct_outcome_classes":      len(tot.Outcomes),
			"max_depth":                     tot.MaxDepth,
			"rule":                          prop.Rule,
			"samples":                       samples,
			"scenarios":                     scen,
			"exhaustive":                    exhaustive,
			"workers":                       nw,
			"budget_s":                      budget,
			"explanation":                   "every execution runs the real library from /repo's working tree; states = choice-tree nodes expanded (each once), transitions = tree edges + library operations, traces = complete executions, each checked against the reference model",
		},
		"assumptions":    prop.Assumptions,
		"wall_s":         round2(time.Since(start).Seconds()),
		"violations":     int(violCount),
		"known_findings": knownLines,
	}
	if attach != "" {
		if b, err := os.ReadFile(attach); err == nil {
			var extra map[string]interface{}
			if json.Unmarshal(b, &extra) == nil {
				cov := ev["coverage"].(map[string]interface{})
				for k, v := range extra {
					cov[k] = v
				}
			}
		}
	}
	_ = os.MkdirAll(filepath.Join(root, "evidence"), 0o755)
	b, _ := json.MarshalIndent(ev, "", " ")
	_ = os.WriteFile(filepath.Join(root, "evidence", prop.ID+".json"), b, 0o644)

	fmt.Printf("%s %s: executions=%d cases=%d states=%d transitions=%d nontrivial=%d outcome-classes=%d exhaustive=%v wall=%.1fs\n",
		prop.ID, tier, tot.Executions, tot.Cases, tot.States, tot.Transitions, tot.NonTrivial, len(tot.Outcomes), exhaustive, time.Since(start).Seconds())
	for _, name := range order {
		a := aggs[name]
		fmt.Printf("  %-40s exec=%-10d cases=%-11d nontrivial=%-10d classes=%-4d complete=%v  %.1fs\n", name, a.Executions, a.Cases, a.NonTrivial, len(a.Outcomes), a.workersComplete == nw, a.WallS)
	}
	for _, l := range knownLines {
		fmt.Println(l)
	}
	for _, l := range vioLines {
		fmt.Println(l)
	}
	return exit
}

func oneLine(s string) string {
	s = strings.ReplaceAll(s, "\n", " ")
	if len(s) > 200 {
		s = s[:200] + "…"
	}
	return s
}

func round2(f float64) float64 { return float64(int64(f*100)) / 100 }
