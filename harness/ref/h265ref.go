package ref

import (
	"encoding/binary"
	"fmt"
)

// H265 reference (RFC 7798): NAL unit builder, payload encoders for the four payload
// structures with and without DONL, a strict payload parser and a reassembler.

// H265Unit builds a NAL unit of n >= 2 bytes with a zero-free body.
func H265Unit(typ, layer, tid uint8, n int, seed byte) []byte {
	u := make([]byte, n)
	u[0] = typ<<1 | layer>>5
	u[1] = layer<<3 | tid&7
	for i := 2; i < n; i++ {
		u[i] = byte(1 + (i*7+int(seed))%255)
	}
	return u
}

// H265Hdr splits a two-octet payload/NAL header.
func H265Hdr(b []byte) (f bool, typ, layer, tid uint8) {
	return b[0]&0x80 != 0, b[0] >> 1 & 0x3F, (b[0]&1)<<5 | b[1]>>3, b[1] & 7
}

// H265Single writes a single NAL unit packet.
func H265Single(unit []byte, donl *uint16) []byte {
	p := append([]byte{}, unit[:2]...)
	if donl != nil {
		p = binary.BigEndian.AppendUint16(p, *donl)
	}
	return append(p, unit[2:]...)
}

// H265AP writes an aggregation packet (donl nil: no decoding order fields).
func H265AP(units [][]byte, donl *uint16, donds []uint8) []byte {
	layer, tid := uint8(63), uint8(7)
	for _, u := range units {
		_, _, l, t := H265Hdr(u)
		if l < layer {
			layer = l
		}
		if t < tid {
			tid = t
		}
	}
	p := []byte{48<<1 | layer>>5, layer<<3 | tid}
	for i, u := range units {
		if donl != nil {
			if i == 0 {
				p = binary.BigEndian.AppendUint16(p, *donl)
			} else {
				p = append(p, donds[i-1])
			}
		}
		p = binary.BigEndian.AppendUint16(p, uint16(len(u)))
		p = append(p, u...)
	}
	return p
}

// H265FU fragments a unit at the given cut points of its body (offsets into unit[2:]).
func H265FU(unit []byte, cuts []int, donl *uint16) [][]byte {
	_, typ, _, _ := H265Hdr(unit)
	body := unit[2:]
	points := append(append([]int{}, cuts...), len(body))
	var out [][]byte
	prev := 0
	for i, c := range points {
		p := []byte{unit[0]&0x81 | 49<<1, unit[1], typ}
		if i == 0 {
			p[2] |= 0x80
			if donl != nil {
				p = binary.BigEndian.AppendUint16(p, *donl)
			}
		}
		if i == len(points)-1 {
			p[2] |= 0x40
		}
		out = append(out, append(p, body[prev:c]...))
		prev = c
	}
	return out
}

// H265PACI writes a PACI packet around a NAL unit: the PACI header carries the unit's
// layer id and TID, cType carries its type, the unit's own header is not repeated.
func H265PACI(layer, tid uint8, fields uint16, phes, payload []byte) []byte {
	p := []byte{50<<1 | layer>>5, layer<<3 | tid, byte(fields >> 8), byte(fields)}
	p = append(p, phes...)
	return append(p, payload...)
}

// H265Parsed is the strict parse of one payload.
type H265Parsed struct {
	Kind  string   // "single", "ap", "fu", "paci"
	Units [][]byte // single: the unit; ap: the units
	DONL  *uint16
	DONDs []uint8
	// fu
	F          bool
	Layer, TID uint8
	FuType     uint8
	S, E       bool
	Frag       []byte
	// paci
	Fields  uint16
	PHES    []byte
	Payload []byte
}

// H265Parse parses strictly; withDONL tells whether decoding order fields are present.
func H265Parse(p []byte, withDONL bool) (*H265Parsed, error) {
	if len(p) < 3 {
		return nil, fmt.Errorf("payload of %d bytes", len(p))
	}
	f, typ, layer, tid := H265Hdr(p)
	if f {
		return nil, fmt.Errorf("F bit set")
	}
	rd16 := func(b []byte) uint16 { return binary.BigEndian.Uint16(b) }
	switch typ {
	case 48:
		out := &H265Parsed{Kind: "ap", Layer: layer, TID: tid}
		rest := p[2:]
		for i := 0; len(rest) > 0; i++ {
			if withDONL {
				if i == 0 {
					if len(rest) < 2 {
						return nil, fmt.Errorf("AP: truncated DONL")
					}
					v := rd16(rest)
					out.DONL = &v
					rest = rest[2:]
				} else {
					out.DONDs = append(out.DONDs, rest[0])
					rest = rest[1:]
				}
			}
			if len(rest) < 2 {
				return nil, fmt.Errorf("AP: truncated size of unit %d", i)
			}
			n := int(rd16(rest))
			rest = rest[2:]
			if n < 2 || len(rest) < n {
				return nil, fmt.Errorf("AP: unit %d of %d bytes does not fit (%d left)", i, n, len(rest))
			}
			out.Units = append(out.Units, rest[:n])
			rest = rest[n:]
		}
		if len(out.Units) < 2 {
			return nil, fmt.Errorf("AP with %d unit(s)", len(out.Units))
		}
		return out, nil
	case 49:
		out := &H265Parsed{Kind: "fu", F: f, Layer: layer, TID: tid, FuType: p[2] & 0x3F, S: p[2]&0x80 != 0, E: p[2]&0x40 != 0}
		rest := p[3:]
		if out.S && withDONL {
			if len(rest) < 2 {
				return nil, fmt.Errorf("FU: truncated DONL")
			}
			v := rd16(rest)
			out.DONL = &v
			rest = rest[2:]
		}
		if len(rest) == 0 {
			return nil, fmt.Errorf("FU without payload")
		}
		out.Frag = rest
		return out, nil
	case 50:
		if len(p) < 5 {
			return nil, fmt.Errorf("PACI: %d bytes", len(p))
		}
		out := &H265Parsed{Kind: "paci", Layer: layer, TID: tid, Fields: rd16(p[2:])}
		phs := int(out.Fields >> 4 & 0x1F)
		rest := p[4:]
		if len(rest) < phs+1 {
			return nil, fmt.Errorf("PACI: PHES of %d bytes and a payload do not fit", phs)
		}
		out.PHES, out.Payload = rest[:phs], rest[phs:]
		return out, nil
	default:
		out := &H265Parsed{Kind: "single", Layer: layer, TID: tid}
		rest := p[2:]
		if withDONL {
			if len(rest) < 2 {
				return nil, fmt.Errorf("single: truncated DONL")
			}
			v := rd16(rest)
			out.DONL = &v
			rest = rest[2:]
		}
		if len(rest) == 0 {
			return nil, fmt.Errorf("single NAL unit without payload")
		}
		out.Units = [][]byte{append(append([]byte{}, p[:2]...), rest...)}
		return out, nil
	}
}
