package ref

import "fmt"

// AV1 reference: OBU writer, LEB128, RTP aggregation-header parser and rule checker,
// element reassembler (AV1 RTP payload format, AV1 bitstream spec 5.3).

// OBU is one open bitstream unit.
type OBU struct {
	Type    uint8 // 0..15
	HasExt  bool
	TID     uint8 // 0..7
	SID     uint8 // 0..3
	Res     uint8 // bit 0: obu_reserved_1bit, bits 1-3: extension_header_reserved_3bits
	Payload []byte
}

// Leb128 encodes v minimally.
func Leb128(v uint64) []byte {
	var b []byte
	for {
		c := byte(v & 0x7F)
		v >>= 7
		if v != 0 {
			b = append(b, c|0x80)
		} else {
			return append(b, c)
		}
	}
}

// ReadLeb reads a LEB128 value; n == 0 means the input ended inside the value.
func ReadLeb(b []byte) (v uint64, n int) {
	for i := 0; i < len(b) && i < 8; i++ {
		v |= uint64(b[i]&0x7F) << uint(7*i)
		if b[i]&0x80 == 0 {
			return v, i + 1
		}
	}
	return 0, 0
}

// Header returns the OBU header octets with the given has_size flag.
func (o *OBU) Header(hasSize bool) []byte {
	h := []byte{o.Type<<3 | o.Res&1}
	if o.HasExt {
		h[0] |= 0x04
		h = append(h, o.TID<<5|o.SID<<3|o.Res>>1&7)
	}
	if hasSize {
		h[0] |= 0x02
	}
	return h
}

// Bytes serialises the OBU with or without its size field.
func (o *OBU) Bytes(hasSize bool) []byte {
	b := o.Header(hasSize)
	if hasSize {
		b = append(b, Leb128(uint64(len(o.Payload)))...)
	}
	return append(b, o.Payload...)
}

// AV1Stream serialises OBUs; the last one has no size field when omitLast is set.
func AV1Stream(obus []OBU, omitLast bool) []byte {
	var b []byte
	for i := range obus {
		b = append(b, obus[i].Bytes(!(omitLast && i == len(obus)-1))...)
	}
	return b
}

// AV1Packet is a parsed RTP payload.
type AV1Packet struct {
	Z, Y, N  bool
	W        int
	Elements [][]byte
}

// AV1ParsePacket parses the aggregation header and the element list strictly.
func AV1ParsePacket(p []byte) (*AV1Packet, error) {
	if len(p) < 2 {
		return nil, fmt.Errorf("payload of %d bytes", len(p))
	}
	pk := &AV1Packet{Z: p[0]&0x80 != 0, Y: p[0]&0x40 != 0, W: int(p[0] >> 4 & 3), N: p[0]&0x08 != 0}
	if p[0]&0x07 != 0 {
		return nil, fmt.Errorf("reserved bits of the aggregation header set")
	}
	rest := p[1:]
	for i := 1; len(rest) > 0; i++ {
		if pk.W != 0 && i == pk.W {
			pk.Elements = append(pk.Elements, rest)
			rest = nil
			break
		}
		n, k := ReadLeb(rest)
		if k == 0 {
			return nil, fmt.Errorf("element %d: truncated length field", i)
		}
		rest = rest[k:]
		if uint64(len(rest)) < n {
			return nil, fmt.Errorf("element %d: length %d exceeds the %d remaining bytes", i, n, len(rest))
		}
		pk.Elements = append(pk.Elements, rest[:n])
		rest = rest[n:]
	}
	if pk.W != 0 && len(pk.Elements) != pk.W {
		return nil, fmt.Errorf("W=%d but %d elements", pk.W, len(pk.Elements))
	}
	return pk, nil
}

// AV1CheckTrain checks the aggregation rules on a payload train and returns the
// reassembled OBUs (header without size field + payload, as transmitted).
func AV1CheckTrain(payloads [][]byte, mtu int) ([][]byte, error) {
	var obus [][]byte
	var cur []byte
	touched := make([][]int, len(payloads)) // indices of the OBUs each packet carries (part of)
	prevY := false
	for i, p := range payloads {
		if len(p) > mtu {
			return nil, fmt.Errorf("payload %d has %d bytes, MTU %d", i, len(p), mtu)
		}
		pk, err := AV1ParsePacket(p)
		if err != nil {
			return nil, fmt.Errorf("payload %d (%x): %v", i, p, err)
		}
		if pk.Z != prevY {
			return nil, fmt.Errorf("payload %d: Z=%v but the previous packet had Y=%v", i, pk.Z, prevY)
		}
		if len(pk.Elements) == 0 {
			return nil, fmt.Errorf("payload %d carries no OBU element", i)
		}
		for k, e := range pk.Elements {
			if len(e) == 0 {
				return nil, fmt.Errorf("payload %d: element %d is empty", i, k)
			}
			first := k == 0 && pk.Z
			last := k == len(pk.Elements)-1 && pk.Y
			if !first {
				cur = nil
			}
			cur = append(cur, e...)
			touched[i] = append(touched[i], len(obus))
			if !last {
				obus = append(obus, cur)
				cur = nil
			}
		}
		prevY = pk.Y
	}
	if prevY {
		return nil, fmt.Errorf("the last packet has Y=1")
	}
	type layer struct {
		ext  bool
		t, s uint8
	}
	layers := make([]layer, len(obus))
	for i, o := range obus {
		if o[0]&0x80 != 0 {
			return nil, fmt.Errorf("OBU %d: forbidden bit set", i)
		}
		if o[0]&0x02 != 0 {
			return nil, fmt.Errorf("OBU %d: transmitted header %02x still has the size flag", i, o[0])
		}
		if o[0]&0x04 != 0 {
			if len(o) < 2 {
				return nil, fmt.Errorf("OBU %d: extension flag without extension octet", i)
			}
			layers[i] = layer{true, o[1] >> 5, o[1] >> 3 & 3}
		}
	}
	for i, idx := range touched {
		var seen *layer
		for _, k := range idx {
			if !layers[k].ext {
				continue
			}
			if seen != nil && *seen != layers[k] {
				return nil, fmt.Errorf("payload %d: OBUs with layer ids (t%d,s%d) and (t%d,s%d) share a packet", i, seen.t, seen.s, layers[k].t, layers[k].s)
			}
			l := layers[k]
			seen = &l
		}
	}
	return obus, nil
}
