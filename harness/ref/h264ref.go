package ref

import (
	"encoding/binary"
	"fmt"
)

// H264 reference: Annex-B writer, RFC 6184 packetizer with arbitrary split points,
// payload classifier and reassembler, output framer.

// H264Unit builds a NAL unit of n >= 1 bytes: header (F=0, NRI, type) and a body
// without zero bytes (so no start-code emulation and no trailing zero).
func H264Unit(typ, nri uint8, n int, seed byte) []byte {
	u := make([]byte, n)
	u[0] = nri<<5 | typ&0x1F
	for i := 1; i < n; i++ {
		u[i] = byte(1 + (i*7+int(seed))%255)
	}
	return u
}

// AnnexB joins units with 3- or 4-byte start codes (codes[i] is 3 or 4).
func AnnexB(units [][]byte, codes []int) []byte {
	var b []byte
	for i, u := range units {
		if codes[i] == 4 {
			b = append(b, 0)
		}
		b = append(b, 0, 0, 1)
		b = append(b, u...)
	}
	return b
}

// H264Frame is what a depacketizer must output for the units: Annex-B (4-byte start
// codes) or AVC (4-byte big-endian lengths).
func H264Frame(units [][]byte, avc bool) []byte {
	var b []byte
	for _, u := range units {
		if avc {
			b = binary.BigEndian.AppendUint32(b, uint32(len(u)))
		} else {
			b = append(b, 0, 0, 0, 1)
		}
		b = append(b, u...)
	}
	return b
}

// H264 payload kinds.
const (
	H264Single = iota
	H264StapA
	H264FuA
)

// H264Payload is the classification of one RTP payload.
type H264Payload struct {
	Kind  int
	Units [][]byte // Single: the unit; STAP-A: the aggregated units
	// FU-A
	NRI, Type uint8
	S, E      bool
	Frag      []byte
}

// H264Classify parses one RFC 6184 payload strictly.
func H264Classify(p []byte) (*H264Payload, error) {
	if len(p) == 0 {
		return nil, fmt.Errorf("empty payload")
	}
	if p[0]&0x80 != 0 {
		return nil, fmt.Errorf("F bit set")
	}
	t := p[0] & 0x1F
	switch {
	case t >= 1 && t <= 23:
		return &H264Payload{Kind: H264Single, Units: [][]byte{p}}, nil
	case t == 24:
		out := &H264Payload{Kind: H264StapA}
		for i := 1; i < len(p); {
			if i+2 > len(p) {
				return nil, fmt.Errorf("STAP-A: truncated size field")
			}
			n := int(binary.BigEndian.Uint16(p[i:]))
			i += 2
			if n == 0 || i+n > len(p) {
				return nil, fmt.Errorf("STAP-A: unit of %d bytes does not fit", n)
			}
			out.Units = append(out.Units, p[i:i+n])
			i += n
		}
		if len(out.Units) == 0 {
			return nil, fmt.Errorf("STAP-A without units")
		}
		return out, nil
	case t == 28:
		if len(p) < 2 {
			return nil, fmt.Errorf("FU-A without FU header")
		}
		// an FU payload MAY be empty (RFC 6184 5.8)
		if p[1]&0x20 != 0 {
			return nil, fmt.Errorf("FU-A reserved bit set")
		}
		return &H264Payload{Kind: H264FuA, NRI: p[0] >> 5 & 3, Type: p[1] & 0x1F, S: p[1]&0x80 != 0, E: p[1]&0x40 != 0, Frag: p[2:]}, nil
	}
	return nil, fmt.Errorf("payload type %d is not single/STAP-A/FU-A", t)
}

// H264Shape describes, per reassembled unit, how it travelled.
type H264Shape struct {
	Unit      []byte
	First     int // index of the first payload that carries (part of) it
	Fragments int // 0: not fragmented
	InStapA   bool
}

// H264Reassemble runs the payload sequence through the reference reassembler. It fails
// on any FU-A shape error (missing S/E, S or E in the middle, type/NRI change, single
// fragment trains).
func H264Reassemble(payloads [][]byte) ([]H264Shape, error) {
	var out []H264Shape
	var cur *H264Shape
	var curNRI, curType uint8
	for i, p := range payloads {
		c, err := H264Classify(p)
		if err != nil {
			return nil, fmt.Errorf("payload %d: %v", i, err)
		}
		if c.Kind != H264FuA && cur != nil {
			return nil, fmt.Errorf("payload %d: FU-A train not finished (no E fragment)", i)
		}
		switch c.Kind {
		case H264Single:
			out = append(out, H264Shape{Unit: c.Units[0], First: i})
		case H264StapA:
			for _, u := range c.Units {
				out = append(out, H264Shape{Unit: u, First: i, InStapA: true})
			}
		case H264FuA:
			if c.S {
				if cur != nil {
					return nil, fmt.Errorf("payload %d: S inside a train", i)
				}
				if c.E {
					return nil, fmt.Errorf("payload %d: fragment with both S and E", i)
				}
				cur = &H264Shape{Unit: []byte{c.NRI<<5 | c.Type}, First: i}
				curNRI, curType = c.NRI, c.Type
			} else if cur == nil {
				return nil, fmt.Errorf("payload %d: FU-A fragment without a start", i)
			}
			if c.NRI != curNRI || c.Type != curType {
				return nil, fmt.Errorf("payload %d: FU-A NRI/type changes inside a train", i)
			}
			cur.Unit = append(cur.Unit, c.Frag...)
			cur.Fragments++
			if c.E {
				if cur.Fragments < 2 {
					return nil, fmt.Errorf("payload %d: train of one fragment", i)
				}
				out = append(out, *cur)
				cur = nil
			}
		}
	}
	if cur != nil {
		return nil, fmt.Errorf("FU-A train not finished at the end (no E fragment)")
	}
	return out, nil
}

// H264Fragment splits a unit into FU-A payloads at the given cut points of its body
// (offsets into unit[1:], increasing, each in (0,len(body))).
func H264Fragment(unit []byte, cuts []int) [][]byte {
	body := unit[1:]
	ind := unit[0]&0x60 | 28
	var out [][]byte
	prev := 0
	points := append(append([]int{}, cuts...), len(body))
	for i, c := range points {
		h := unit[0] & 0x1F
		if i == 0 {
			h |= 0x80
		}
		if i == len(points)-1 {
			h |= 0x40
		}
		p := append([]byte{ind, h}, body[prev:c]...)
		out = append(out, p)
		prev = c
	}
	return out
}

// H264StapAPayload aggregates units.
func H264StapAPayload(units [][]byte) []byte {
	nri := uint8(0)
	for _, u := range units {
		if n := u[0] >> 5 & 3; n > nri {
			nri = n
		}
	}
	p := []byte{nri<<5 | 24}
	for _, u := range units {
		p = binary.BigEndian.AppendUint16(p, uint16(len(u)))
		p = append(p, u...)
	}
	return p
}
