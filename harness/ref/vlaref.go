package ref

// VLA reference encoder, written from the text of the video-layers-allocation00
// specification (webrtc.googlesource.com/src/+/refs/heads/main/docs/native-code/rtp-hdrext/video-layers-allocation00).

// VLALayer is one active spatial layer.
type VLALayer struct {
	Stream, Spatial int
	Bitrates        []int // cumulative target bitrate per temporal layer, kbps
	Width, Height   int
	Framerate       int
}

// VLAValue is a layers allocation. Layers are in (stream, spatial) ascending order.
type VLAValue struct {
	RID, Count int
	Layers     []VLALayer
	HasRes     bool
}

// Encode writes the extension payload. ok is false for the empty allocation, whose
// layout (a single zero byte) is a special case outside this encoder.
func (v *VLAValue) Encode() (b []byte, ok bool) {
	if len(v.Layers) == 0 {
		return nil, false
	}
	var bm [4]uint8
	for _, l := range v.Layers {
		bm[l.Stream] |= 1 << uint(l.Spatial)
	}
	common := bm[0]
	for s := 1; s < v.Count; s++ {
		if bm[s] != common {
			common = 0
		}
	}
	b = append(b, byte(v.RID)<<6|byte(v.Count-1)<<4|common)
	if common == 0 {
		b = append(b, bm[0]<<4|bm[1])
		if v.Count > 2 {
			b = append(b, bm[2]<<4|bm[3])
		}
	}
	// 2-bit temporal layer counts, MSB first, zero padded
	var cur byte
	n := 0
	for _, l := range v.Layers {
		cur |= byte(len(l.Bitrates)-1) << uint(6-2*n)
		n++
		if n == 4 {
			b = append(b, cur)
			cur, n = 0, 0
		}
	}
	if n > 0 {
		b = append(b, cur)
	}
	for _, l := range v.Layers {
		for _, r := range l.Bitrates {
			b = append(b, Leb128(uint64(r))...)
		}
	}
	if v.HasRes {
		for _, l := range v.Layers {
			b = append(b, byte((l.Width-1)>>8), byte(l.Width-1), byte((l.Height-1)>>8), byte(l.Height-1), byte(l.Framerate))
		}
	}
	return b, true
}
