package ref

// VP8Desc is an RFC 7741 payload descriptor, field by field.
type VP8Desc struct {
	X, N, S    bool
	R1, R2     bool // reserved bits of the first octet (0x40, 0x08)
	PID        uint8
	I, L, T, K bool
	RSV        uint8 // low 4 bits of the extension octet
	M          bool  // 15-bit picture id form
	PictureID  uint16
	TL0PICIDX  uint8
	TID        uint8
	Y          bool
	KEYIDX     uint8
}

func b2u(b bool, v byte) byte {
	if b {
		return v
	}
	return 0
}

// Encode writes the descriptor octets.
func (d *VP8Desc) Encode() []byte {
	b := []byte{b2u(d.X, 0x80) | b2u(d.R1, 0x40) | b2u(d.N, 0x20) | b2u(d.S, 0x10) | b2u(d.R2, 0x08) | d.PID&7}
	if !d.X {
		return b
	}
	b = append(b, b2u(d.I, 0x80)|b2u(d.L, 0x40)|b2u(d.T, 0x20)|b2u(d.K, 0x10)|d.RSV&0x0F)
	if d.I {
		if d.M {
			b = append(b, 0x80|byte(d.PictureID>>8)&0x7F, byte(d.PictureID))
		} else {
			b = append(b, byte(d.PictureID)&0x7F)
		}
	}
	if d.L {
		b = append(b, d.TL0PICIDX)
	}
	if d.T || d.K {
		b = append(b, d.TID<<6|b2u(d.Y, 0x20)|d.KEYIDX&0x1F)
	}
	return b
}
