// Package ref holds the reference models used as oracles. They are written from the
// RFC/spec text, independently of the library, in the dullest possible style.
package ref

import (
	"encoding/binary"
	"errors"
)

// Elem is one RFC 8285 extension element (or the single RFC 3550 legacy value, id 0).
type Elem struct {
	ID  uint8
	Val []byte
}

// Item kinds of an RFC 8285 block body.
const (
	ItemElem = iota
	ItemPad
	ItemTerminator // one-byte profile only: id 15, followed by ignored bytes
)

// Item is one syntactic item of an RFC 8285 extension block body.
type Item struct {
	Kind int
	Elem Elem
	N    int    // ItemPad: number of zero bytes
	Len4 uint8  // ItemTerminator: the length nibble written next to id 15
	Junk []byte // ItemTerminator: bytes that follow (ignored by a receiver)
}

// Profiles.
const (
	ProfileOneByte = 0xBEDE
	ProfileTwoByte = 0x1000
)

// Wire describes one RTP packet image syntactically (RFC 3550 5.1, 5.3.1, RFC 8285).
type Wire struct {
	Version  uint8
	Marker   bool
	PT       uint8
	Seq      uint16
	TS, SSRC uint32
	CSRC     []uint32

	X             bool
	Profile       uint16
	Items         []Item // RFC 8285 body (profiles BEDE / 1000)
	Legacy        []byte // body for any other profile (whole words)
	ExtraPadWords int    // additional all-zero words after the minimal padding (RFC 8285 only)

	Payload []byte
	PadSize int  // 0 = no padding (P clear); 1..255 = P set
	PadFill byte // value of the padding filler bytes (the last one is the count)
}

// Is8285 reports whether the profile selects an RFC 8285 body.
func (w *Wire) Is8285() bool { return w.Profile == ProfileOneByte || w.Profile == ProfileTwoByte }

// Body returns the extension body before 32-bit rounding.
func (w *Wire) Body() []byte {
	if !w.Is8285() {
		return append([]byte{}, w.Legacy...)
	}
	var b []byte
	for _, it := range w.Items {
		switch it.Kind {
		case ItemPad:
			for i := 0; i < it.N; i++ {
				b = append(b, 0)
			}
		case ItemElem:
			if w.Profile == ProfileOneByte {
				b = append(b, it.Elem.ID<<4|uint8(len(it.Elem.Val)-1))
			} else {
				b = append(b, it.Elem.ID, uint8(len(it.Elem.Val)))
			}
			b = append(b, it.Elem.Val...)
		case ItemTerminator:
			b = append(b, 0xF0|it.Len4&0x0F)
			b = append(b, it.Junk...)
		}
	}
	return b
}

// HeaderLen is the length of the fixed header, CSRC list and extension block.
func (w *Wire) HeaderLen() int {
	n := 12 + 4*len(w.CSRC)
	if w.X {
		n += 4 + (len(w.Body())+3)/4*4 + 4*w.ExtraPadWords
	}
	return n
}

// Build serialises the image.
func (w *Wire) Build() []byte {
	b := make([]byte, 12, 64)
	b[0] = w.Version<<6 | uint8(len(w.CSRC))
	if w.PadSize > 0 {
		b[0] |= 0x20
	}
	if w.X {
		b[0] |= 0x10
	}
	b[1] = w.PT & 0x7F
	if w.Marker {
		b[1] |= 0x80
	}
	binary.BigEndian.PutUint16(b[2:], w.Seq)
	binary.BigEndian.PutUint32(b[4:], w.TS)
	binary.BigEndian.PutUint32(b[8:], w.SSRC)
	for _, c := range w.CSRC {
		b = binary.BigEndian.AppendUint32(b, c)
	}
	if w.X {
		body := w.Body()
		for len(body)%4 != 0 {
			body = append(body, 0)
		}
		for i := 0; i < 4*w.ExtraPadWords; i++ {
			body = append(body, 0)
		}
		b = binary.BigEndian.AppendUint16(b, w.Profile)
		b = binary.BigEndian.AppendUint16(b, uint16(len(body)/4))
		b = append(b, body...)
	}
	b = append(b, w.Payload...)
	if w.PadSize > 0 {
		for i := 0; i < w.PadSize-1; i++ {
			b = append(b, w.PadFill)
		}
		b = append(b, byte(w.PadSize))
	}
	return b
}

// Elements returns what a receiver must report: the elements before any terminator.
func (w *Wire) Elements() []Elem {
	if !w.X {
		return nil
	}
	if !w.Is8285() {
		return []Elem{{ID: 0, Val: w.Legacy}}
	}
	var out []Elem
	for _, it := range w.Items {
		if it.Kind == ItemTerminator {
			break
		}
		if it.Kind == ItemElem {
			out = append(out, it.Elem)
		}
	}
	return out
}

// Canonical reports whether the image is what a minimal encoder writes for its content:
// no interior or leading pad bytes, no terminator, minimal trailing padding, zero filler.
func (w *Wire) Canonical() bool {
	if w.X && w.Is8285() {
		for _, it := range w.Items {
			if it.Kind != ItemElem {
				return false
			}
		}
		if w.ExtraPadWords != 0 {
			return false
		}
	}
	if w.PadSize > 1 && w.PadFill != 0 {
		return false
	}
	return true
}

// Parsed is the result of the strict reference parser.
type Parsed struct {
	Version   uint8
	Padding   bool
	X         bool
	Marker    bool
	PT        uint8
	Seq       uint16
	TS, SSRC  uint32
	CSRC      []uint32
	Profile   uint16
	Elems     []Elem
	HeaderLen int
	Payload   []byte
	PadSize   int
	// Terminated: a one-byte block contained an id-15 element (parsing stopped there)
	Terminated bool
}

// ErrMalformed is returned by Parse for anything that is not a well-formed packet.
var ErrMalformed = errors.New("malformed RTP packet")

// Parse is a strict RFC 3550 / RFC 8285 parser: every element must lie inside the
// extension block, padding must fit.
func Parse(b []byte) (*Parsed, error) {
	if len(b) < 12 {
		return nil, ErrMalformed
	}
	p := &Parsed{
		Version: b[0] >> 6, Padding: b[0]&0x20 != 0, X: b[0]&0x10 != 0,
		Marker: b[1]&0x80 != 0, PT: b[1] & 0x7F,
		Seq: binary.BigEndian.Uint16(b[2:]), TS: binary.BigEndian.Uint32(b[4:]), SSRC: binary.BigEndian.Uint32(b[8:]),
	}
	cc := int(b[0] & 0x0F)
	n := 12 + 4*cc
	if len(b) < n {
		return nil, ErrMalformed
	}
	for i := 0; i < cc; i++ {
		p.CSRC = append(p.CSRC, binary.BigEndian.Uint32(b[12+4*i:]))
	}
	if p.X {
		if len(b) < n+4 {
			return nil, ErrMalformed
		}
		p.Profile = binary.BigEndian.Uint16(b[n:])
		words := int(binary.BigEndian.Uint16(b[n+2:]))
		n += 4
		end := n + 4*words
		if len(b) < end {
			return nil, ErrMalformed
		}
		body := b[n:end]
		switch p.Profile {
		case ProfileOneByte:
			for i := 0; i < len(body); {
				if body[i] == 0 {
					i++
					continue
				}
				id, l := body[i]>>4, int(body[i]&0x0F)+1
				if id == 15 {
					p.Terminated = true
					break
				}
				if i+1+l > len(body) {
					return nil, ErrMalformed
				}
				p.Elems = append(p.Elems, Elem{ID: id, Val: body[i+1 : i+1+l]})
				i += 1 + l
			}
		case ProfileTwoByte:
			for i := 0; i < len(body); {
				if body[i] == 0 {
					i++
					continue
				}
				if i+2 > len(body) {
					return nil, ErrMalformed
				}
				id, l := body[i], int(body[i+1])
				if i+2+l > len(body) {
					return nil, ErrMalformed
				}
				p.Elems = append(p.Elems, Elem{ID: id, Val: body[i+2 : i+2+l]})
				i += 2 + l
			}
		default:
			p.Elems = []Elem{{ID: 0, Val: body}}
		}
		n = end
	}
	p.HeaderLen = n
	end := len(b)
	if p.Padding {
		if end <= n {
			return nil, ErrMalformed
		}
		p.PadSize = int(b[end-1])
		if p.PadSize == 0 || end-p.PadSize < n {
			return nil, ErrMalformed
		}
		end -= p.PadSize
	}
	p.Payload = b[n:end]
	return p, nil
}

// CanonicalImage reports whether b is a well-formed packet in the minimal layout: parsing
// it strictly and rebuilding its content without any optional padding gives b again.
func CanonicalImage(b []byte) bool {
	p, err := Parse(b)
	if err != nil {
		return false
	}
	w := &Wire{Version: p.Version, Marker: p.Marker, PT: p.PT, Seq: p.Seq, TS: p.TS, SSRC: p.SSRC, CSRC: p.CSRC,
		X: p.X, Profile: p.Profile, Payload: p.Payload, PadSize: p.PadSize}
	if p.X {
		if w.Is8285() {
			seen := map[uint8]bool{}
			for _, e := range p.Elems {
				if seen[e.ID] {
					return false
				}
				seen[e.ID] = true
				w.Items = append(w.Items, Item{Kind: ItemElem, Elem: e})
			}
		} else {
			w.Legacy = p.Elems[0].Val
		}
	}
	img := w.Build()
	if len(img) != len(b) {
		return false
	}
	for i := range img {
		if img[i] != b[i] {
			return false
		}
	}
	return true
}
