package ref

// VP9 reference: RTP payload descriptor encoder (RFC 9628 / draft-ietf-payload-vp9) and
// a bit writer for the uncompressed frame header (VP9 bitstream spec 6.2).

// BitWriter appends bits MSB first.
type BitWriter struct {
	Buf  []byte
	nbit int
}

// Put writes the low n bits of v.
func (w *BitWriter) Put(v uint64, n int) {
	for i := n - 1; i >= 0; i-- {
		if w.nbit%8 == 0 {
			w.Buf = append(w.Buf, 0)
		}
		if v>>uint(i)&1 == 1 {
			w.Buf[len(w.Buf)-1] |= 1 << uint(7-w.nbit%8)
		}
		w.nbit++
	}
}

// Flag writes one bit.
func (w *BitWriter) Flag(b bool) {
	if b {
		w.Put(1, 1)
	} else {
		w.Put(0, 1)
	}
}

// Bits is the number of bits written.
func (w *BitWriter) Bits() int { return w.nbit }

// VP9FrameHeader holds the leading syntax elements of uncompressed_header().
type VP9FrameHeader struct {
	Profile           uint8
	ShowExisting      bool
	FrameToShowMapIdx uint8
	NonKey            bool
	ShowFrame         bool
	ErrorResilient    bool
	IntraOnly         bool // non-key frames with ShowFrame == false only
	// colour config (key frames)
	TwelveBit     bool // profile >= 2
	ColorSpace    uint8
	ColorRange    bool
	SubX, SubY    bool // profile 1 and 3, colour space != 7
	Width, Height int  // 1..65536
}

// Encode writes the header bits followed by filler so that the frame has n bytes (at
// least the header itself); filler is position dependent.
func (h *VP9FrameHeader) Encode(n int, seed byte) []byte {
	w := &BitWriter{}
	w.Put(2, 2)
	w.Put(uint64(h.Profile&1), 1)
	w.Put(uint64(h.Profile>>1&1), 1)
	if h.Profile == 3 {
		w.Put(0, 1)
	}
	w.Flag(h.ShowExisting)
	if h.ShowExisting {
		w.Put(uint64(h.FrameToShowMapIdx), 3)
	} else {
		w.Flag(h.NonKey)
		w.Flag(h.ShowFrame)
		w.Flag(h.ErrorResilient)
		if !h.NonKey {
			w.Put(0x49, 8)
			w.Put(0x83, 8)
			w.Put(0x42, 8)
			if h.Profile >= 2 {
				w.Flag(h.TwelveBit)
			}
			w.Put(uint64(h.ColorSpace), 3)
			if h.ColorSpace != 7 {
				w.Flag(h.ColorRange)
				if h.Profile == 1 || h.Profile == 3 {
					w.Flag(h.SubX)
					w.Flag(h.SubY)
					w.Put(0, 1)
				}
			} else if h.Profile == 1 || h.Profile == 3 {
				w.Put(0, 1)
			}
			w.Put(uint64(h.Width-1), 16)
			w.Put(uint64(h.Height-1), 16)
			w.Put(0, 1) // render_and_frame_size_different
		} else {
			if !h.ShowFrame {
				w.Flag(h.IntraOnly)
			}
			if !h.ErrorResilient {
				w.Put(0, 2) // reset_frame_context
			}
			if h.IntraOnly && !h.ShowFrame {
				// the real layout of an intra-only frame (VP9 bitstream 6.2): sync code, colour
				// configuration for profiles above 0, refresh_frame_flags, frame size. The library
				// does not read it; it is written so that truncations cut through real syntax.
				w.Put(0x49, 8)
				w.Put(0x83, 8)
				w.Put(0x42, 8)
				if h.Profile > 0 {
					if h.Profile >= 2 {
						w.Flag(h.TwelveBit)
					}
					w.Put(uint64(h.ColorSpace), 3)
					if h.ColorSpace != 7 {
						w.Flag(h.ColorRange)
						if h.Profile == 1 || h.Profile == 3 {
							w.Flag(h.SubX)
							w.Flag(h.SubY)
							w.Put(0, 1)
						}
					} else if h.Profile == 1 || h.Profile == 3 {
						w.Put(0, 1)
					}
				}
				w.Put(0xA5, 8) // refresh_frame_flags
				wd, ht := h.Width, h.Height
				if wd < 1 {
					wd = 64
				}
				if ht < 1 {
					ht = 48
				}
				w.Put(uint64(wd-1), 16)
				w.Put(uint64(ht-1), 16)
				w.Put(0, 1) // render_and_frame_size_different
			} else {
				w.Put(0xA5, 8) // refresh_frame_flags and beyond: not interpreted by the RTP layer
			}
		}
	}
	b := w.Buf
	for len(b) < n {
		b = append(b, byte(len(b)*11+(len(b)>>8)*13+(len(b)>>16)*29)+seed) // no power-of-two period
	}
	return b
}

// VP9Desc is an RTP payload descriptor, field by field.
type VP9Desc struct {
	I, P, L, F, B, E, V, Z bool
	M                      bool // 15-bit picture id
	PictureID              uint16
	TID                    uint8
	U                      bool
	SID                    uint8
	D                      bool
	TL0PICIDX              uint8   // F == 0
	PDiff                  []uint8 // F && P
	PDiffExtraN            bool    // set N on the last P_DIFF (ill-formed: a further one must follow)
	// scalability structure
	NS            uint8 // N_S (layers - 1)
	Y, G          bool
	SSRes         uint8 // 3 reserved bits
	PGRes         uint8 // 2 reserved bits of every picture-group octet
	Width, Height []uint16
	NG            uint8
	PGTID         []uint8
	PGU           []bool
	PGPDiff       [][]uint8
}

// Encode writes the descriptor octets.
func (d *VP9Desc) Encode() []byte {
	b := []byte{b2u(d.I, 0x80) | b2u(d.P, 0x40) | b2u(d.L, 0x20) | b2u(d.F, 0x10) | b2u(d.B, 0x08) | b2u(d.E, 0x04) | b2u(d.V, 0x02) | b2u(d.Z, 0x01)}
	if d.I {
		if d.M {
			b = append(b, 0x80|byte(d.PictureID>>8)&0x7F, byte(d.PictureID))
		} else {
			b = append(b, byte(d.PictureID)&0x7F)
		}
	}
	if d.L {
		b = append(b, d.TID<<5|b2u(d.U, 0x10)|(d.SID&7)<<1|b2u(d.D, 1))
		if !d.F {
			b = append(b, d.TL0PICIDX)
		}
	}
	if d.F && d.P {
		for i, p := range d.PDiff {
			n := byte(0)
			if i < len(d.PDiff)-1 || d.PDiffExtraN {
				n = 1
			}
			b = append(b, p<<1|n)
		}
	}
	if d.V {
		b = append(b, d.NS<<5|b2u(d.Y, 0x10)|b2u(d.G, 0x08)|d.SSRes&7)
		if d.Y {
			for i := 0; i <= int(d.NS); i++ {
				b = append(b, byte(d.Width[i]>>8), byte(d.Width[i]), byte(d.Height[i]>>8), byte(d.Height[i]))
			}
		}
		if d.G {
			b = append(b, d.NG)
			for i := 0; i < int(d.NG); i++ {
				b = append(b, d.PGTID[i]<<5|b2u(d.PGU[i], 0x10)|byte(len(d.PGPDiff[i]))<<2|d.PGRes&3)
				b = append(b, d.PGPDiff[i]...)
			}
		}
	}
	return b
}
