package props

import (
	"bytes"
	"fmt"

	"github.com/pion/rtp/codecs"
	"github.com/pion/rtp/codecs/vp9"

	"verif/mc"
	"verif/ref"
)

func init() {
	register(mc.Property{
		ID:   "C12",
		Rule: "payloader: one case = (mode, MTU, source of the initial picture id, frame header from the reference bit writer, frame length relative to the MTU), three frames per payloader instance; header parser: one case = one written header; decoder: one case = one descriptor from the reference encoder (all 256 flag octets x field values) with every truncation; non-trivial = frame needs several packets or carries a scalability structure / descriptor has optional fields",
		Assumptions: []string{
			"frame headers: profiles 0-3 x bit depth x colour spaces 0-7 x range x subsampling with 3 sizes, and all 36 sizes from {1,2,255,256,257,65535}^2 with 4 colour configurations; key, inter, intra-only and show-existing frames; every width 1..65536 x 3 heights in the header-parser sweep (thorough; quick: 4096 widths around byte boundaries)",
			"MTU {4,11,12,13,14,20,100,1200} (thorough: every MTU 4..40 and {63,64,65,100,255,256,257,1200,65535}); a configuration whose MTU cannot carry the descriptor (3 bytes, 11 on the first packet of a non-flexible key frame) plus one byte is outside the property (sufficient MTU)",
			"P is demanded for key (0) and inter (1) frames in non-flexible mode; for intra-only and show-existing frames nothing is demanded of P and the scalability structure",
			"large scalability structures: N_G in {4,16,64,85,86,128,255} x R patterns (all 0, all 3, cyclic) x N_S {0,7} x Y, truncations sampled (every cut below 24, every 7th, the last 6)",
			"large frames: key and inter frames of {65535,65536,65537,70000,140000} bytes (aperiodic content) at MTU {100,1200,65535} in both modes, preceded by a small frame on the same payloader",
			"frame pairs: a key frame followed on the same payloader by a near-identical one (width or height +-1, other profile, same) and the reverse; the second frame is held to the same per-frame oracle (its own coded size in the scalability structure, picture id +1, lossless)",
			"decoder: the reserved bits of a scalability structure (three in its first octet, two in every picture-group octet) come all clear and all set - the VP9 RTP format has the receiver ignore them, so the decoded values must not depend on them",
			"decoder: SID >= 5 is not generated (documented library limit); coded width 65536 does not fit the 16-bit SS field and is not used with the non-flexible payloader",
		},
		Scenarios: []mc.Scenario{
			{Name: "payloader", Tiers: "qt", ShardDepth: 4, Run: c12Payloader},
			{Name: "header-parser", Tiers: "qt", ShardDepth: 3, Run: c12Header},
			{Name: "header-all-widths", Tiers: "qt", ShardDepth: 2, Run: c12Widths},
			{Name: "descriptor-decoder", Tiers: "qt", ShardDepth: 3, Run: c12Decoder},
			{Name: "descriptor-large-picture-groups", Tiers: "qt", ShardDepth: 3, Run: c12LargeGroups},
			{Name: "payloader-large-frames", Tiers: "qt", ShardDepth: 3, Run: c12LargeFrames},
			{Name: "payloader-near-identical-frame-pairs", Tiers: "qt", ShardDepth: 3, Run: c12Pairs},
		},
	})
}

var c12Sizes = []int{1, 2, 255, 256, 257, 65535}

// c12Colour decides a key-frame colour configuration.
func c12Colour(c *mc.Ctx, h *ref.VP9FrameHeader, full bool) {
	h.Profile = uint8(c.Pick(4))
	if !full {
		h.ColorSpace = mc.From(c, []uint8{2, 7})
		h.ColorRange = h.ColorSpace == 7
		h.SubX, h.SubY = h.Profile&1 == 1 && h.ColorSpace != 7, false
		return
	}
	if h.Profile >= 2 {
		h.TwelveBit = c.Bool()
	}
	h.ColorSpace = uint8(c.Pick(8))
	if h.ColorSpace != 7 {
		h.ColorRange = c.Bool()
		if h.Profile&1 == 1 {
			h.SubX, h.SubY = c.Bool(), c.Bool()
		}
	}
}

// c12Frame decides one frame header.
func c12Frame(c *mc.Ctx) *ref.VP9FrameHeader {
	h := &ref.VP9FrameHeader{Width: 640, Height: 480}
	kind := c.Pick(5) // 0 key/colour sweep, 1 key/size sweep, 2 inter, 3 intra-only, 4 show-existing
	switch kind {
	case 0:
		c12Colour(c, h, true)
		sz := mc.From(c, [][2]int{{1, 65535}, {65535, 1}, {256, 257}})
		h.Width, h.Height = sz[0], sz[1]
		h.ShowFrame, h.ErrorResilient = true, false
	case 1:
		c12Colour(c, h, false)
		h.Width, h.Height = mc.From(c, c12Sizes), mc.From(c, c12Sizes)
		h.ShowFrame, h.ErrorResilient = c.Bool(), c.Bool()
	case 2:
		h.Profile = uint8(c.Pick(4))
		h.NonKey, h.ShowFrame, h.ErrorResilient = true, true, c.Bool()
	case 3:
		h.Profile = uint8(c.Pick(4))
		h.NonKey, h.ShowFrame, h.IntraOnly, h.ErrorResilient = true, false, true, c.Bool()
	case 4:
		h.Profile = uint8(c.Pick(4))
		h.ShowExisting, h.FrameToShowMapIdx = true, uint8(c.Pick(8))
	}
	return h
}

func c12DescribeFrame(h *ref.VP9FrameHeader) string {
	switch {
	case h.ShowExisting:
		return fmt.Sprintf("show-existing(profile %d, idx %d)", h.Profile, h.FrameToShowMapIdx)
	case h.NonKey:
		return fmt.Sprintf("non-key(profile %d, show %v, intra-only %v, error-res %v)", h.Profile, h.ShowFrame, h.IntraOnly, h.ErrorResilient)
	}
	return fmt.Sprintf("key(profile %d, 12bit %v, cs %d, range %v, sub %v/%v, %dx%d, show %v, error-res %v)", h.Profile, h.TwelveBit, h.ColorSpace, h.ColorRange, h.SubX, h.SubY, h.Width, h.Height, h.ShowFrame, h.ErrorResilient)
}

// c12CheckHeader compares vp9.Header.Unmarshal with what was written.
func c12CheckHeader(c *mc.Ctx, h *ref.VP9FrameHeader, frame []byte) {
	var got vp9.Header
	if err := got.Unmarshal(frame); err != nil {
		c.Failf("header-rejected", "%s = %s: vp9.Header.Unmarshal: %v", c12DescribeFrame(h), hx(frame), err)
	}
	c.Ops(1)
	bad := func(what string, g, w interface{}) {
		c.Failf("header-field", "%s = %s: %s = %v, written %v", c12DescribeFrame(h), hx(frame), what, g, w)
	}
	if got.Profile != h.Profile {
		bad("Profile", got.Profile, h.Profile)
	}
	if got.ShowExistingFrame != h.ShowExisting {
		bad("ShowExistingFrame", got.ShowExistingFrame, h.ShowExisting)
	}
	if h.ShowExisting {
		if got.FrameToShowMapIdx != h.FrameToShowMapIdx {
			bad("FrameToShowMapIdx", got.FrameToShowMapIdx, h.FrameToShowMapIdx)
		}
		return
	}
	if got.NonKeyFrame != h.NonKey {
		bad("NonKeyFrame", got.NonKeyFrame, h.NonKey)
	}
	if got.ShowFrame != h.ShowFrame {
		bad("ShowFrame", got.ShowFrame, h.ShowFrame)
	}
	if got.ErrorResilientMode != h.ErrorResilient {
		bad("ErrorResilientMode", got.ErrorResilientMode, h.ErrorResilient)
	}
	if h.NonKey {
		return
	}
	if got.ColorConfig == nil || got.FrameSize == nil {
		c.Failf("header-field", "%s: key frame without colour config / frame size", c12DescribeFrame(h))
	}
	depth := uint8(8)
	if h.Profile >= 2 {
		depth = 10
		if h.TwelveBit {
			depth = 12
		}
	}
	cc := got.ColorConfig
	if cc.BitDepth != depth {
		bad("BitDepth", cc.BitDepth, depth)
	}
	if cc.ColorSpace != h.ColorSpace {
		bad("ColorSpace", cc.ColorSpace, h.ColorSpace)
	}
	wantRange, wantX, wantY := h.ColorRange, true, true
	if h.ColorSpace == 7 {
		wantRange = true
		if h.Profile&1 == 1 {
			wantX, wantY = false, false
		}
	} else if h.Profile&1 == 1 {
		wantX, wantY = h.SubX, h.SubY
	}
	// colour space 7 (RGB) in profiles 0 and 2 is not a legal stream; nothing is demanded of
	// the subsampling flags there
	if cc.ColorRange != wantRange {
		bad("ColorRange", cc.ColorRange, wantRange)
	}
	if !(h.ColorSpace == 7 && h.Profile&1 == 0) && (cc.SubsamplingX != wantX || cc.SubsamplingY != wantY) {
		bad("Subsampling", fmt.Sprint(cc.SubsamplingX, cc.SubsamplingY), fmt.Sprint(wantX, wantY))
	}
	if int(got.FrameSize.FrameWidthMinus1) != h.Width-1 || int(got.FrameSize.FrameHeightMinus1) != h.Height-1 {
		bad("FrameSize-1", fmt.Sprint(got.FrameSize.FrameWidthMinus1, got.FrameSize.FrameHeightMinus1), fmt.Sprint(h.Width-1, h.Height-1))
	}
	if h.Width <= 65535 && int(got.Width()) != h.Width {
		bad("Width()", got.Width(), h.Width)
	}
	if h.Height <= 65535 && int(got.Height()) != h.Height {
		bad("Height()", got.Height(), h.Height)
	}
}

func c12Header(c *mc.Ctx) {
	h := c12Frame(c)
	extra := c.Pick(3) // bytes after the header
	frame := h.Encode(0, 7)
	frame = append(frame, fill(extra, 0x21)...)
	if c.Verbose() {
		c.Notef("header %s = %s", c12DescribeFrame(h), hx(frame))
	}
	c12CheckHeader(c, h, frame)
	if !h.NonKey && !h.ShowExisting {
		c.NonTrivial()
	}
	c.Outcome(fmt.Sprintf("profile=%d key=%v existing=%v", h.Profile, !h.NonKey && !h.ShowExisting, h.ShowExisting))
}

func c12Widths(c *mc.Ctx) {
	blk := c.Pick(256)
	profile := uint8(c.Pick(4))
	h := &ref.VP9FrameHeader{Profile: profile, ShowFrame: true, ColorSpace: 2, ColorRange: true, SubX: true, SubY: true}
	n := 0
	for lo := 0; lo < 256; lo++ {
		if !c.Thorough() && lo > 7 && lo < 248 {
			continue
		}
		for _, ht := range []int{1, 65536, 0x1234} {
			h.Width, h.Height = blk*256+lo+1, ht
			c12CheckHeader(c, h, h.Encode(0, 0))
			h.Width, h.Height = ht, blk*256+lo+1
			c12CheckHeader(c, h, h.Encode(0, 0))
			n += 2
		}
	}
	c.Cases(n - 1)
	if c.Verbose() {
		c.Notef("profile %d: widths/heights %d..%d", profile, blk*256+1, blk*256+256)
	}
	c.NonTrivial()
	c.Outcome("ok")
}

// c12Gen answers Intn for the VP9 initial picture id.
type c12Gen struct {
	answer int
	asked  []int
}

func (g *c12Gen) Intn(n int) int {
	g.asked = append(g.asked, n)
	if g.answer >= n {
		return n - 1
	}
	return g.answer
}
func (g *c12Gen) Uint32() uint32                    { return 0 }
func (g *c12Gen) Uint64() uint64                    { return 0 }
func (g *c12Gen) GenerateString(int, string) string { return "" }

func c12Payloader(c *mc.Ctx) {
	flexible := c.Bool()
	mtus := []int{4, 11, 12, 13, 14, 20, 100, 1200}
	if c.Thorough() {
		mtus = []int{63, 64, 65, 100, 255, 256, 257, 1200, 65535}
		for m := 4; m <= 40; m++ {
			mtus = append(mtus, m)
		}
	}
	mtu := mc.From(c, mtus)
	src := c.Pick(11) // 0-3: InitialPictureIDFn {0,1,0x7FFE,0x7FFF}; 4-6: random seam answers {0,1,0x7FFE}; 7-10: InitialPictureIDFn {0x8000,0x8001,0xFFFE,0xFFFF} (only the low 15 bits count)
	h := c12Frame(c)
	lenClass := c.Pick(5)

	p := &codecs.VP9Payloader{FlexibleMode: flexible}
	var gen *c12Gen
	startID := 0
	if src < 4 || src >= 7 {
		raw := []int{0, 1, 0x7FFE, 0x7FFF, 0, 0, 0, 0x8000, 0x8001, 0xFFFE, 0xFFFF}[src]
		startID = raw & 0x7FFF
		v := uint16(raw)
		p.InitialPictureIDFn = func() uint16 { return v }
	} else {
		gen = &c12Gen{answer: []int{0, 1, 0x7FFE}[src-4]}
		startID = gen.answer
		restore := codecs.VerifSetRandom(gen)
		defer restore()
	}

	inter := &ref.VP9FrameHeader{NonKey: true, ShowFrame: true}
	key := &ref.VP9FrameHeader{ShowFrame: true, ColorSpace: 1, Width: 320, Height: 240}
	frames := []*ref.VP9FrameHeader{h, inter, key}
	multi := false
	// for odd length classes an unrelated second payloader (other mode) is used before every frame
	var decoy *codecs.VP9Payloader
	if lenClass%2 == 1 {
		decoy = &codecs.VP9Payloader{FlexibleMode: !flexible, InitialPictureIDFn: func() uint16 { return 77 }}
	}
	for fi, fh := range frames {
		if fh.Width > 65535 || fh.Height > 65535 {
			return
		}
		if decoy != nil {
			decoy.Payload(1200, (&ref.VP9FrameHeader{ShowFrame: true, ColorSpace: 1, Width: 64, Height: 48}).Encode(30, 9))
		}
		first := 3
		if !flexible && !fh.NonKey { // the library treats show-existing like a key frame here
			first = 11
		}
		if mtu < first+1 || mtu < 4 {
			return // MTU not sufficient: outside the property
		}
		room := mtu - 3
		lens := []int{1, room - 1, room, room + 1, 2*room + 1}
		hdr := fh.Encode(0, 0)
		n := lens[(lenClass+fi)%5]
		if n < len(hdr) {
			n = len(hdr)
		}
		keep := fh.Encode(n, byte(fi*31))
		frame, intact := guard(keep)
		pkts := p.Payload(uint16(mtu), frame)
		c.Ops(1)
		desc := func() string {
			return fmt.Sprintf("flexible=%v mtu=%d start-id-source=%d frame %d: %s, %d bytes", flexible, mtu, src, fi, c12DescribeFrame(fh), len(frame))
		}
		if c.Verbose() {
			c.Notef("%s -> %d packets", desc(), len(pkts))
		}
		if !bytes.Equal(frame, keep) || !intact() {
			c.Failf("input-modified", "%s: Payload changed its input", desc())
		}
		if gen != nil && fi == 0 {
			for _, n := range gen.asked {
				if n > 0x8000 {
					c.Failf("initial-picture-id", "%s: the initial picture id is drawn from [0,%d)", desc(), n)
				}
			}
		}
		if len(pkts) == 0 {
			c.Failf("no-packets", "%s: no packet returned although the MTU is sufficient", desc())
		}
		if len(pkts) > 1 {
			multi = true
		}
		if gen != nil && fi == 0 {
			// where a randomly started id sequence begins is not the property's business (only
			// that it is a 15-bit id): the first packet anchors it
			var d codecs.VP9Packet
			if _, err := d.Unmarshal(pkts[0]); err == nil {
				startID = int(d.PictureID)
			}
		}
		wantID := uint16((startID + fi) & 0x7FFF)
		c12CheckFrame(c, pkts, keep, fh, flexible, mtu, wantID, desc)
	}
	if multi || (!flexible && !h.NonKey) {
		c.NonTrivial()
	}
	c.Outcome(fmt.Sprintf("flex=%v multi=%v", flexible, multi))
}

// ---- descriptor decoder ---------------------------------------------------------------

func c12Decoder(c *mc.Ctx) {
	b0 := byte(c.Pick(256))
	d := &ref.VP9Desc{I: b0&0x80 != 0, P: b0&0x40 != 0, L: b0&0x20 != 0, F: b0&0x10 != 0, B: b0&0x08 != 0, E: b0&0x04 != 0, V: b0&0x02 != 0, Z: b0&0x01 != 0}
	if d.I {
		d.M = c.Bool()
		if d.M {
			d.PictureID = mc.From(c, []uint16{0, 0x7FFF, 0x1234})
		} else {
			d.PictureID = mc.From(c, []uint16{0, 127, 0x55})
		}
	}
	if d.L {
		lb := mc.From(c, []byte{0x00, 0xF9, 0xA4, 0x13})
		d.TID, d.U, d.SID, d.D = lb>>5, lb&0x10 != 0, lb>>1&7, lb&1 != 0
		if !d.F {
			d.TL0PICIDX = mc.From(c, []uint8{0, 0xFF})
		}
	}
	tooMany := false
	if d.F && d.P {
		n := 1 + c.Pick(4) // 4 = three P_DIFFs with N still set on the third
		if n == 4 {
			tooMany, n = true, 3
		}
		vals := mc.From(c, [][]uint8{{1, 0x7F, 0x2A}, {0x7F, 0, 1}})
		d.PDiff = vals[:n]
		d.PDiffExtraN = tooMany
	}
	if d.V {
		d.NS = mc.From(c, []uint8{0, 1, 4, 7})
		d.Y, d.G = c.Bool(), c.Bool()
		d.SSRes = uint8(c.Pick(2) * 7)
		d.PGRes = d.SSRes & 3 // the reserved bits of the structure are all clear or all set
		if d.Y {
			for i := 0; i <= int(d.NS); i++ {
				d.Width = append(d.Width, uint16(0xFFFF-i*0x1111))
				d.Height = append(d.Height, uint16(1+i*0x0101))
			}
		}
		if d.G {
			d.NG = mc.From(c, []uint8{0, 1, 3})
			rpat := c.Pick(4)
			for i := 0; i < int(d.NG); i++ {
				r := (rpat + i) % 4
				d.PGTID = append(d.PGTID, uint8((i*3+rpat)%8))
				d.PGU = append(d.PGU, (i+rpat)%2 == 0)
				pd := []uint8{}
				for j := 0; j < r; j++ {
					pd = append(pd, uint8(0x10*(i+1)+j))
				}
				d.PGPDiff = append(d.PGPDiff, pd)
			}
		}
	}
	payload := fill(mc.From(c, []int{0, 1, 3}), 0x61)
	enc := d.Encode()
	if tooMany {
		enc = append(enc, 0x02) // the fourth P_DIFF
	}
	full := append(clone(enc), payload...)
	if c.Verbose() {
		c.Notef("descriptor %s (fourth P_DIFF: %v) + %d payload bytes, every truncation", hx(enc), tooMany, len(payload))
	}
	for cut := 0; cut <= len(full); cut++ {
		in := clone(full[:cut])
		var p codecs.VP9Packet
		out, err := p.Unmarshal(in)
		c.Ops(1)
		if tooMany {
			if err == nil && cut >= len(enc) {
				c.Failf("fourth-pdiff-accepted", "descriptor %s with a fourth P_DIFF was accepted", hx(enc))
			}
			if cut >= len(enc) {
				continue
			}
		}
		if cut < len(enc) {
			if err == nil {
				c.Failf("truncated-accepted", "descriptor %s cut to %d bytes (%s) was accepted", hx(enc), cut, hx(in))
			}
			continue
		}
		if err != nil {
			c.Failf("well-formed-rejected", "descriptor %s + %d payload bytes: %v", hx(enc), cut-len(enc), err)
		}
		if !bytes.Equal(out, full[len(enc):cut]) || !bytes.Equal(p.Payload, out) {
			c.Failf("payload-differs", "descriptor %s + payload %s: returned %s", hx(enc), hx(full[len(enc):cut]), hx(out))
		}
		if diff := c12Compare(&p, d); diff != "" {
			c.Failf("fields-differ", "descriptor %s: %s", hx(enc), diff)
		}
		if p.IsPartitionHead(in) != d.B {
			c.Failf("partition-head", "descriptor %s: IsPartitionHead %v, B=%v", hx(enc), !d.B, d.B)
		}
	}
	c.Cases(len(full))
	if d.I || d.L || d.V || (d.F && d.P) {
		c.NonTrivial()
	}
	c.Outcome(fmt.Sprintf("I=%v L=%v FP=%v V=%v", d.I, d.L, d.F && d.P, d.V))
}

// c12Compare compares a decoded packet (fresh receiver) with the written descriptor.
func c12Compare(p *codecs.VP9Packet, d *ref.VP9Desc) string {
	if p.I != d.I || p.P != d.P || p.L != d.L || p.F != d.F || p.B != d.B || p.E != d.E || p.V != d.V || p.Z != d.Z {
		return fmt.Sprintf("flags I=%v P=%v L=%v F=%v B=%v E=%v V=%v Z=%v", p.I, p.P, p.L, p.F, p.B, p.E, p.V, p.Z)
	}
	if d.I {
		want := d.PictureID
		if !d.M {
			want &= 0x7F
		}
		if p.PictureID != want {
			return fmt.Sprintf("PictureID %d, want %d", p.PictureID, want)
		}
	}
	if d.L {
		if p.TID != d.TID || p.U != d.U || p.SID != d.SID || p.D != d.D {
			return fmt.Sprintf("layer indices TID=%d U=%v SID=%d D=%v, want %d %v %d %v", p.TID, p.U, p.SID, p.D, d.TID, d.U, d.SID, d.D)
		}
		if !d.F && p.TL0PICIDX != d.TL0PICIDX {
			return fmt.Sprintf("TL0PICIDX %d, want %d", p.TL0PICIDX, d.TL0PICIDX)
		}
	}
	if d.F && d.P {
		if !bytes.Equal(p.PDiff, d.PDiff) {
			return fmt.Sprintf("PDiff %v, want %v", p.PDiff, d.PDiff)
		}
	} else if len(p.PDiff) != 0 {
		return fmt.Sprintf("PDiff %v without F and P", p.PDiff)
	}
	if d.V {
		if p.NS != d.NS || p.Y != d.Y || p.G != d.G {
			return fmt.Sprintf("SS N_S=%d Y=%v G=%v, want %d %v %v", p.NS, p.Y, p.G, d.NS, d.Y, d.G)
		}
		if d.Y {
			if fmt.Sprint(p.Width) != fmt.Sprint(d.Width) || fmt.Sprint(p.Height) != fmt.Sprint(d.Height) {
				return fmt.Sprintf("SS sizes %v x %v, want %v x %v", p.Width, p.Height, d.Width, d.Height)
			}
		}
		ng := uint8(0)
		if d.G {
			ng = d.NG
		}
		if p.NG != ng || len(p.PGTID) != int(ng) || len(p.PGU) != int(ng) || len(p.PGPDiff) != int(ng) {
			return fmt.Sprintf("SS N_G=%d with %d/%d/%d entries, want %d", p.NG, len(p.PGTID), len(p.PGU), len(p.PGPDiff), ng)
		}
		for i := 0; i < int(ng); i++ {
			if p.PGTID[i] != d.PGTID[i] || p.PGU[i] != d.PGU[i] || !bytes.Equal(p.PGPDiff[i], d.PGPDiff[i]) {
				return fmt.Sprintf("SS picture %d: TID=%d U=%v P_DIFF=%v, want %d %v %v", i, p.PGTID[i], p.PGU[i], p.PGPDiff[i], d.PGTID[i], d.PGU[i], d.PGPDiff[i])
			}
		}
	}
	return ""
}

func c12LargeGroups(c *mc.Ctx) {
	d := &ref.VP9Desc{V: true, G: true, B: true, I: c.Bool(), PictureID: 0x21}
	d.NS = mc.From(c, []uint8{0, 7})
	d.Y = c.Bool()
	if d.Y {
		for i := 0; i <= int(d.NS); i++ {
			d.Width = append(d.Width, uint16(100+i))
			d.Height = append(d.Height, uint16(200+i))
		}
	}
	d.NG = mc.From(c, []uint8{4, 16, 64, 85, 86, 128, 255})
	rpat := c.Pick(3)
	for i := 0; i < int(d.NG); i++ {
		r := []int{0, 3, i % 4}[rpat]
		d.PGTID = append(d.PGTID, uint8(i%8))
		d.PGU = append(d.PGU, i%2 == 0)
		pd := []uint8{}
		for j := 0; j < r; j++ {
			pd = append(pd, uint8(i+j))
		}
		d.PGPDiff = append(d.PGPDiff, pd)
	}
	enc := d.Encode()
	full := append(clone(enc), 0xAB, 0xCD)
	if c.Verbose() {
		c.Notef("descriptor with N_G=%d (%d bytes), R pattern %d", d.NG, len(enc), rpat)
	}
	n := 0
	for cut := 0; cut <= len(full); cut++ {
		if cut >= 24 && cut%7 != 0 && cut < len(full)-6 {
			continue
		}
		n++
		var p codecs.VP9Packet
		out, err := p.Unmarshal(clone(full[:cut]))
		if cut < len(enc) {
			if err == nil {
				c.Failf("truncated-accepted", "descriptor with N_G=%d cut to %d of %d bytes was accepted", d.NG, cut, len(enc))
			}
			continue
		}
		if err != nil {
			c.Failf("well-formed-rejected", "descriptor with N_G=%d (%d bytes): %v", d.NG, len(enc), err)
		}
		if !bytes.Equal(out, full[len(enc):cut]) {
			c.Failf("payload-differs", "descriptor with N_G=%d: returned %s", d.NG, hx(out))
		}
		if diff := c12Compare(&p, d); diff != "" {
			c.Failf("fields-differ", "descriptor with N_G=%d R pattern %d: %s", d.NG, rpat, diff)
		}
	}
	c.Ops(n)
	c.Cases(n - 1)
	c.NonTrivial()
	c.Outcome(fmt.Sprintf("NG=%d", d.NG))
}

func c12Pairs(c *mc.Ctx) {
	flexible := c.Bool()
	mtu := mc.From(c, []int{20, 100, 1200})
	h := c12Frame(c)
	if h.NonKey || h.ShowExisting {
		return
	}
	v := *h
	switch c.Pick(6) {
	case 0:
	case 1:
		v.Width++
	case 2:
		v.Height++
	case 3:
		v.Height--
	case 4:
		v.Profile = (v.Profile + 2) % 4
	case 5:
		v.Width, v.Height = v.Height, v.Width
	}
	if v.Width < 1 || v.Height < 1 || v.Width > 65535 || v.Height > 65535 || h.Width > 65535 || h.Height > 65535 {
		return
	}
	first, second := h, &v
	if c.Bool() {
		first, second = second, first
	}
	n := mc.From(c, []int{0, 30, 2 * mtu})
	start := uint16(mc.From(c, []int{5, 0x7FFF}))
	used := &codecs.VP9Payloader{FlexibleMode: flexible, InitialPictureIDFn: func() uint16 { return start }}
	used.Payload(uint16(mtu), first.Encode(n, 1))
	frame := second.Encode(n, 2)
	got := used.Payload(uint16(mtu), clone(frame))
	c.Ops(2)
	desc := func() string {
		return fmt.Sprintf("flexible=%v mtu=%d: second frame on the payloader, after %s: %s, %d bytes", flexible, mtu, c12DescribeFrame(first), c12DescribeFrame(second), len(frame))
	}
	if c.Verbose() {
		c.Notef("%s", desc())
	}
	if len(got) == 0 {
		c.Failf("no-packets", "%s: no packet returned", desc())
	}
	c12CheckFrame(c, got, frame, second, flexible, mtu, (start+1)&0x7FFF, desc)
	c.NonTrivial()
	c.Outcome(fmt.Sprintf("flex=%v", flexible))
}

// c12CheckFrame is the per-frame oracle of the payloader scenarios.
func c12CheckFrame(c *mc.Ctx, pkts [][]byte, keep []byte, fh *ref.VP9FrameHeader, flexible bool, mtu int, wantID uint16, desc func() string) {
	isKey := !fh.NonKey && !fh.ShowExisting
	var got []byte
	for i, pk := range pkts {
		if len(pk) > mtu {
			c.Failf("mtu", "%s: packet %d has %d bytes", desc(), i, len(pk))
		}
		var d codecs.VP9Packet
		out, err := d.Unmarshal(pk)
		c.Ops(1)
		if err != nil {
			c.Failf("own-output-rejected", "%s: VP9Packet.Unmarshal(%s): %v", desc(), hx(pk), err)
		}
		got = append(got, out...)
		if d.B != (i == 0) || d.E != (i == len(pkts)-1) || d.IsPartitionHead(pk) != (i == 0) {
			c.Failf("begin-end-bits", "%s: packet %d of %d: B=%v E=%v IsPartitionHead=%v (%s)", desc(), i, len(pkts), d.B, d.E, d.IsPartitionHead(pk), hx(pk))
		}
		if !d.I || pk[1]&0x80 == 0 || d.PictureID != wantID {
			c.Failf("picture-id", "%s: packet %d: I=%v 15-bit form=%v PictureID=%d, want %d", desc(), i, d.I, pk[1]&0x80 != 0, d.PictureID, wantID)
		}
		if d.F != flexible {
			c.Failf("mode-bit", "%s: packet %d: F=%v", desc(), i, d.F)
		}
		if !flexible {
			if (isKey && d.P) || (fh.NonKey && !fh.IntraOnly && !d.P) {
				c.Failf("p-bit", "%s: packet %d: P=%v", desc(), i, d.P)
			}
			if isKey {
				if i == 0 {
					if !d.V || d.NS != 0 || !d.Y || len(d.Width) != 1 || len(d.Height) != 1 || int(d.Width[0]) != fh.Width || int(d.Height[0]) != fh.Height {
						c.Failf("scalability-structure", "%s: first packet of a key frame: V=%v N_S=%d Y=%v sizes %v x %v, coded size %dx%d (%s)", desc(), d.V, d.NS, d.Y, d.Width, d.Height, fh.Width, fh.Height, hx(pk))
					}
				} else if d.V {
					c.Failf("scalability-structure", "%s: packet %d carries a scalability structure", desc(), i)
				}
			}
		}
	}
	if !bytes.Equal(got, keep) {
		c.Failf("frame-differs", "%s: concatenated payloads %s, want %s", desc(), hx(got), hx(keep))
	}
}

// c12LargeFrames: frames beyond 16-bit lengths.
func c12LargeFrames(c *mc.Ctx) {
	flexible := c.Bool()
	mtu := mc.From(c, []int{100, 1200, 65535})
	size := mc.From(c, []int{65535, 65536, 65537, 70000, 140000})
	fh := &ref.VP9FrameHeader{ShowFrame: true, ColorSpace: 2, Width: 1920, Height: 1080}
	if c.Bool() {
		fh = &ref.VP9FrameHeader{NonKey: true, ShowFrame: true}
	}
	p := &codecs.VP9Payloader{FlexibleMode: flexible, InitialPictureIDFn: func() uint16 { return 0x7FFF }}
	small := &ref.VP9FrameHeader{NonKey: true, ShowFrame: true}
	wantID := uint16(0x7FFF)
	for fi, f := range []*ref.VP9FrameHeader{small, fh} {
		n := 40
		if fi == 1 {
			n = size
		}
		frame := f.Encode(n, byte(fi+1))
		keep := clone(frame)
		pkts := p.Payload(uint16(mtu), frame)
		c.Ops(1)
		desc := func() string {
			return fmt.Sprintf("flexible=%v mtu=%d frame %d: %s, %d bytes", flexible, mtu, fi, c12DescribeFrame(f), len(frame))
		}
		if c.Verbose() {
			c.Notef("%s -> %d packets", desc(), len(pkts))
		}
		if !bytes.Equal(frame, keep) {
			c.Failf("input-modified", "%s: Payload changed its input", desc())
		}
		if len(pkts) == 0 {
			c.Failf("no-packets", "%s: no packet returned although the MTU is sufficient", desc())
		}
		c12CheckFrameQuiet(c, pkts, keep, f, flexible, mtu, wantID, desc)
		wantID = (wantID + 1) & 0x7FFF
	}
	c.NonTrivial()
	c.Outcome(fmt.Sprintf("flex=%v size=%d", flexible, size))
}

// c12CheckFrameQuiet is c12CheckFrame for frames too large to print.
func c12CheckFrameQuiet(c *mc.Ctx, pkts [][]byte, keep []byte, fh *ref.VP9FrameHeader, flexible bool, mtu int, wantID uint16, desc func() string) {
	var got []byte
	for _, pk := range pkts {
		var d codecs.VP9Packet
		out, err := d.Unmarshal(pk)
		if err != nil {
			break // reported by c12CheckFrame below
		}
		got = append(got, out...)
	}
	if len(got) != len(keep) {
		c.Failf("frame-differs", "%s: concatenated payloads have %d bytes, the frame %d", desc(), len(got), len(keep))
	}
	for i := range got {
		if got[i] != keep[i] {
			c.Failf("frame-differs", "%s: concatenated payloads differ from the frame at offset %d (%#x, frame has %#x)", desc(), i, got[i], keep[i])
		}
	}
	c12CheckFrame(c, pkts, keep, fh, flexible, mtu, wantID, desc)
}
