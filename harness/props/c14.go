package props

import (
	"bytes"
	"fmt"

	"github.com/pion/rtp/codecs"

	"verif/mc"
	"verif/ref"
)

func init() {
	register(mc.Property{
		ID:   "C14",
		Rule: "payloader side: one case = (MTU, SkipAggregation, AddDONL, 1-3 (thorough 4) NAL units: type, layer id, TID, size relative to the MTU, start-code length); parser side: one case = one payload of one of the four RFC 7798 structures from the reference encoder with every truncation; complete bit-field domains are swept inside executions; non-trivial = a unit is fragmented or aggregated / the payload is accepted",
		Assumptions: []string{
			"unit types {0,1,19,32,33,34,39,47}, (layer,TID) in {(0,1),(1,7),(63,1)}, F = 0 (the parser rejects F = 1 payloads as corrupted), sizes {3,4,MTU-3..MTU+1,2MTU+1} (>= 3 bytes: at least one payload byte); MTU {4,5,6,7,8,9,16,100}, with AddDONL only MTU >= 6 (below that no FU can carry a byte)",
			"wide scenario: every NAL type 0-47 x every layer id 0-63 (TID 1) and every TID 1-7 alone and next to a small unit; units of 300, 257*(MTU-3)+2 (more than 256 FUs), 66000 bytes for MTU {6,100,1200,65535}; all sequences of 5-7 units over {3B, MTU-2 B, MTU+1 B} with alternating layer ids; aggregation of units of {3,255,256,257,300} bytes at MTU {600,1200,65535}; 64-600 small units in one call (more than 256 units per aggregation packet)",
			"large aggregation candidates: all sequences of 2-3 units of {3,20000,30000,32768,40000,65000} bytes at MTU {32767,32768,40000,65535}; unit bodies: EVERY body of 1-6 bytes (thorough 7) over {00,01,03,FF} that is legal inside a NAL unit (no 00 00 00 / 00 00 01, no trailing 00), between two other units, 3- and 4-byte start codes, MTU {6,100}",
			"units with F = 1 go through the payloader alone (the library's parser rejects them): one unit per call, types {1,19,32}, every (layer,TID) of the alphabet, sizes {3, MTU, MTU+1, 3*MTU}, MTU {8,100}, without DONL; the single NAL unit packet must be the unit, every FU must carry F, layer id, TID and FuType of the unit, S first, E last, and the fragments must concatenate to the unit",
			"DON values are not demanded, only their placement; the payloader's DONL in every FU (pinned by an existing test) is a listed known finding matched by an exact defect model",
			"every payload and truncation is also decoded by a receiver that has decoded a sibling payload with every optional field before (and all earlier truncations): the same field oracle applies",
			"the four structure decoders (H265SingleNALUnitPacket, H265AggregationPacket, H265FragmentationUnitPacket, H265PACIPacket) are also called directly on the structure they are for, with the same oracle as H265Packet",
			"a truncation must be rejected unless the prefix is itself well-formed under the reference parser",
		},
		Scenarios: []mc.Scenario{
			{Name: "payloader-to-parser", Tiers: "qt", ShardDepth: 4, Run: c14Roundtrip},
			{Name: "all-types-large-units-long-sequences", Tiers: "qt", ShardDepth: 3, Run: c14Wide},
			{Name: "reference-encoder-to-parser", Tiers: "qt", ShardDepth: 3, Run: c14Parser},
			{Name: "unit-bodies-with-zero-and-one-bytes", Tiers: "qt", ShardDepth: 3, Run: c14Bodies},
			{Name: "forbidden-bit-preserved-by-the-payloader", Tiers: "qt", ShardDepth: 3, Run: c14ForbiddenBit},
			{Name: "bit-field-domains", Tiers: "qt", ShardDepth: 2, Run: c14Fields},
		},
	})
}

type c14LT struct{ layer, tid uint8 }

var c14LTs = []c14LT{{0, 1}, {1, 7}, {63, 1}}

func c14Sizes(mtu int, level int) []int {
	cands := []int{3, 4, mtu - 5, mtu - 4, mtu - 3, mtu - 2, mtu - 1, mtu, mtu + 1, 2*mtu + 1}
	if level == 1 {
		cands = []int{3, mtu - 3, mtu - 1, mtu, mtu + 1, 2*mtu + 1}
	} else if level >= 2 {
		cands = []int{3, mtu - 1, mtu + 1, 2*mtu + 1}
	}
	var out []int
	for _, v := range cands {
		dup := false
		for _, o := range out {
			if o == v {
				dup = true
			}
		}
		if v >= 3 && !dup {
			out = append(out, v)
		}
	}
	return out
}

// c14Piece is what one payload contributes, taken from the library's own parser.
type c14Piece struct {
	kind    string
	units   [][]byte
	hdr     [2]byte
	s, e    bool
	fuType  uint8
	frag    []byte
	hasDONL bool
	dondsOK bool
	apLayer uint8
	apTID   uint8
}

func c14LibParse(c *mc.Ctx, payload []byte, donl bool, desc func() string) *c14Piece {
	p := &codecs.H265Packet{}
	p.WithDONL(donl)
	if _, err := p.Unmarshal(clone(payload)); err != nil {
		c.Failf("own-output-rejected", "%s: H265Packet.Unmarshal(%s): %v", desc(), hx(payload), err)
	}
	c.Ops(1)
	switch pk := p.Packet().(type) {
	case *codecs.H265SingleNALUnitPacket:
		h := pk.PayloadHeader()
		u := append([]byte{byte(h >> 8), byte(h)}, pk.Payload()...)
		return &c14Piece{kind: "single", units: [][]byte{u}, hasDONL: pk.DONL() != nil}
	case *codecs.H265AggregationPacket:
		out := &c14Piece{kind: "ap", dondsOK: true}
		f := pk.FirstUnit()
		out.units = append(out.units, f.NalUnit())
		out.hasDONL = f.DONL() != nil
		if int(f.NALUSize()) != len(f.NalUnit()) {
			c.Failf("ap-size-field", "%s: first unit size field %d, unit has %d bytes", desc(), f.NALUSize(), len(f.NalUnit()))
		}
		for _, o := range pk.OtherUnits() {
			out.units = append(out.units, o.NalUnit())
			if (o.DOND() != nil) != donl {
				out.dondsOK = false
			}
			if int(o.NALUSize()) != len(o.NalUnit()) {
				c.Failf("ap-size-field", "%s: unit size field %d, unit has %d bytes", desc(), o.NALUSize(), len(o.NalUnit()))
			}
		}
		_, _, out.apLayer, out.apTID = ref.H265Hdr(payload)
		return out
	case *codecs.H265FragmentationUnitPacket:
		h := pk.PayloadHeader()
		return &c14Piece{kind: "fu", hdr: [2]byte{byte(h >> 8), byte(h)}, s: pk.FuHeader().S(), e: pk.FuHeader().E(), fuType: pk.FuHeader().FuType(), frag: pk.Payload(), hasDONL: pk.DONL() != nil}
	case *codecs.H265PACIPacket:
		return &c14Piece{kind: "paci"}
	}
	c.Failf("unknown-packet-type", "%s: Packet() returned %T", desc(), p.Packet())
	return nil
}

// c14Reassemble joins pieces into units; stripDONL applies the defect model of the
// listed finding (every non-first fragment starts with a 2-byte DONL).
func c14Reassemble(pieces []*c14Piece, stripDONL bool) ([][]byte, []int, error) {
	var units [][]byte
	var frags []int
	var cur []byte
	n := 0
	var curType uint8
	var curHdr [2]byte
	for i, pc := range pieces {
		if pc.kind != "fu" && cur != nil {
			return nil, nil, fmt.Errorf("payload %d: fragmented unit not finished (no E)", i)
		}
		switch pc.kind {
		case "single", "ap":
			for _, u := range pc.units {
				units = append(units, u)
				frags = append(frags, 0)
			}
		case "fu":
			frag := pc.frag
			if pc.s {
				if cur != nil {
					return nil, nil, fmt.Errorf("payload %d: S inside a fragmented unit", i)
				}
				if pc.e {
					return nil, nil, fmt.Errorf("payload %d: FU with both S and E", i)
				}
				// restore the unit header: F and the low layer bit from the FU payload header, type from the FU header
				cur = []byte{pc.hdr[0]&0x81 | pc.fuType<<1, pc.hdr[1]}
				n, curType, curHdr = 0, pc.fuType, pc.hdr
			} else {
				if cur == nil {
					return nil, nil, fmt.Errorf("payload %d: FU without a start fragment", i)
				}
				if stripDONL {
					if len(frag) < 3 {
						return nil, nil, fmt.Errorf("payload %d: too short for the defect model", i)
					}
					frag = frag[2:]
				}
			}
			if pc.fuType != curType || pc.hdr != curHdr {
				return nil, nil, fmt.Errorf("payload %d: FU type / payload header changes inside a unit", i)
			}
			cur = append(cur, frag...)
			n++
			if pc.e {
				if n < 2 {
					return nil, nil, fmt.Errorf("payload %d: unit sent as a single FU", i)
				}
				units = append(units, cur)
				frags = append(frags, n)
				cur = nil
			}
		default:
			return nil, nil, fmt.Errorf("payload %d: unexpected %s packet", i, pc.kind)
		}
	}
	if cur != nil {
		return nil, nil, fmt.Errorf("the last fragmented unit has no E fragment (S set, E never)")
	}
	return units, frags, nil
}

// c14Wide: dimensions the product scenario keeps small, taken one at a time.
// c14Decoy makes c14Core use an unrelated second payloader first.
var c14Decoy bool

func c14Wide(c *mc.Ctx) {
	c14Decoy = c.Bool()
	defer func() { c14Decoy = false }()
	addDONL := c.Bool()
	skipAgg := c.Bool()
	var units [][]byte
	var codes []int
	var mtu int
	switch c.Pick(6) {
	case 5: // units whose sizes add up to more than 32767 / 65535 bytes, at MTUs that admit them
		mtu = mc.From(c, []int{32767, 32768, 40000, 65535})
		big := []int{3, 20000, 30000, 32768, 40000, 65000}
		n := 2 + c.Pick(2)
		for i := 0; i < n; i++ {
			units = append(units, ref.H265Unit(uint8(1+i), uint8(i), 1, mc.From(c, big), byte(i*13)))
			codes = append(codes, 3+i%2)
		}
	case 3: // aggregation of units around the 8-bit size boundary
		mtu = mc.From(c, []int{600, 1200, 65535})
		a := mc.From(c, []int{3, 255, 256, 257, 300})
		b := mc.From(c, []int{3, 255, 256, 257, 300})
		units = [][]byte{ref.H265Unit(32, 0, 1, a, 1), ref.H265Unit(33, 1, 2, b, 2), ref.H265Unit(1, 0, 1, mc.From(c, []int{3, 256, 70000}), 3)}
		codes = []int{4, 3, 4}
	case 4: // very many small units in one call
		mtu = mc.From(c, []int{100, 4000, 65535})
		n := mc.From(c, []int{64, 255, 256, 257, 258, 259, 260, 300, 600})
		for i := 0; i < n; i++ {
			units = append(units, ref.H265Unit(1, uint8(i%3), uint8(1+i%5), 3+i%2, byte(i)))
			codes = append(codes, 3)
		}
	case 0:
		mtu = mc.From(c, []int{6, 9, 100})
		typ := uint8(c.Pick(48))
		layer, tid := uint8(0), uint8(1)
		if v := c.Pick(70); v < 64 {
			layer = uint8(v)
		} else {
			tid = uint8(v - 63 + 1)
		}
		size := mc.From(c, []int{3, mtu - 1, mtu + 1, 3*mtu + 1})
		units = [][]byte{ref.H265Unit(typ, layer, tid, size, 3)}
		codes = []int{3 + c.Pick(2)}
		if c.Bool() {
			units = append(units, ref.H265Unit(1, 2, 3, 3, 4))
			codes = append(codes, 4)
		}
	case 1:
		mtu = mc.From(c, []int{6, 100, 1200, 65535})
		size := mc.From(c, []int{300, 257*(mtu-3) + 2, 66000})
		if size > 700*mtu {
			return // bounds the number of fragments per case
		}
		units = [][]byte{ref.H265Unit(19, 1, 1, size, 5), ref.H265Unit(1, 0, 2, 3, 6)}
		codes = []int{4, 3}
	case 2:
		mtu = mc.From(c, []int{8, 40})
		n := 5 + c.Pick(3)
		for i := 0; i < n; i++ {
			size := mc.From(c, []int{3, mtu - 2, mtu + 1})
			units = append(units, ref.H265Unit(1, uint8(i%2), uint8(1+i%3), size, byte(i*11)))
			codes = append(codes, 3+i%2)
		}
	}
	c14Core(c, mtu, addDONL, skipAgg, units, codes)
}

func c14Roundtrip(c *mc.Ctx) {
	addDONL := c.Bool()
	mtus := []int{4, 5, 6, 7, 8, 9, 16, 100}
	if addDONL {
		mtus = []int{6, 7, 8, 9, 16, 100}
	}
	mtu := mc.From(c, mtus)
	skipAgg := c.Bool()
	maxN := 3
	if c.Thorough() {
		maxN = 4
	}
	n := 1 + c.Pick(maxN)
	types := []uint8{0, 1, 19, 32, 33, 34, 39, 47}
	level := 0
	switch n {
	case 2:
		types, level = []uint8{1, 19, 32, 47}, 1
	case 3:
		types, level = []uint8{1, 32}, 2
	case 4:
		types, level = []uint8{1, 32}, 2
	}
	sizes := c14Sizes(mtu, level)
	var units [][]byte
	var codes []int
	for i := 0; i < n; i++ {
		t := mc.From(c, types)
		lt := mc.From(c, c14LTs)
		if n == 4 {
			lt = c14LTs[i%3]
		}
		sz := mc.From(c, sizes)
		code := 4
		if n <= 2 {
			code = 3 + c.Pick(2)
		}
		units = append(units, ref.H265Unit(t, lt.layer, lt.tid, sz, byte(i*37)))
		codes = append(codes, code)
	}
	c14Core(c, mtu, addDONL, skipAgg, units, codes)
}

func c14Core(c *mc.Ctx, mtu int, addDONL, skipAgg bool, units [][]byte, codes []int) {
	desc := func() string {
		s := fmt.Sprintf("mtu=%d AddDONL=%v SkipAggregation=%v units:", mtu, addDONL, skipAgg)
		for i, u := range units {
			_, t, l, tid := ref.H265Hdr(u)
			s += fmt.Sprintf(" type%d/l%d/t%d/%dB/sc%d", t, l, tid, len(u), codes[i])
		}
		return s
	}
	keep := ref.AnnexB(units, codes)
	in, intact := guard(keep)
	pl := &codecs.H265Payloader{AddDONL: addDONL, SkipAggregation: skipAgg}
	if c14Decoy {
		// an unrelated second payloader that has already numbered a few units
		dp := &codecs.H265Payloader{AddDONL: true, SkipAggregation: !skipAgg}
		dp.Payload(uint16(maxI(mtu, 8)), ref.AnnexB([][]byte{ref.H265Unit(32, 0, 1, 5, 1), ref.H265Unit(33, 0, 1, 4, 2), ref.H265Unit(19, 0, 1, 40, 3)}, []int{4, 3, 4}))
	}
	payloads := cloneAll(pl.Payload(uint16(mtu), in))
	c.Ops(1)
	if c.Verbose() {
		c.Notef("%s -> %s", desc(), hxs(payloads))
	}
	if !bytes.Equal(in, keep) || !intact() {
		c.Failf("input-modified", "%s: Payload changed its input", desc())
	}
	var pieces []*c14Piece
	hp := &codecs.H265Packet{}
	for i, p := range payloads {
		if len(p) == 0 || len(p) > mtu {
			c.Failf("mtu", "%s: payload %d has %d bytes: %s", desc(), i, len(p), hx(p))
		}
		pc := c14LibParse(c, p, addDONL, desc)
		pieces = append(pieces, pc)
		// the independent parser must agree on the structure
		rp, err := ref.H265Parse(p, addDONL)
		if err != nil || rp.Kind != pc.kind {
			c.Failf("rfc7798-shape", "%s: payload %d = %s: reference parser: %v (library says %s)", desc(), i, hx(p), err, pc.kind)
		}
		switch pc.kind {
		case "single":
			if pc.hasDONL != addDONL {
				c.Failf("donl-placement", "%s: single NAL unit packet %s: DONL present=%v", desc(), hx(p), pc.hasDONL)
			}
		case "ap":
			if skipAgg {
				c.Failf("aggregated-despite-skip", "%s: payload %d is an aggregation packet", desc(), i)
			}
			if pc.hasDONL != addDONL || !pc.dondsOK {
				c.Failf("donl-placement", "%s: aggregation packet %s: DONL/DOND placement", desc(), hx(p))
			}
			if len(pc.units) < 2 {
				c.Failf("rfc7798-shape", "%s: aggregation packet with %d unit", desc(), len(pc.units))
			}
			ml, mt := uint8(63), uint8(7)
			for _, u := range pc.units {
				_, _, l, t := ref.H265Hdr(u)
				if l < ml {
					ml = l
				}
				if t < mt {
					mt = t
				}
			}
			if _, typ, _, _ := ref.H265Hdr(p); typ != 48 || pc.apLayer != ml || pc.apTID != mt {
				c.Failf("ap-header", "%s: aggregation packet header type %d layer %d TID %d, want 48 / min layer %d / min TID %d", desc(), typ, pc.apLayer, pc.apTID, ml, mt)
			}
		case "fu":
			if pc.hasDONL != (addDONL && pc.s) {
				c.Failf("donl-placement", "%s: FU %s (S=%v): DONL present=%v", desc(), hx(p), pc.s, pc.hasDONL)
			}
		}
		wantHead := !(pc.kind == "fu" && !pc.s)
		if hp.IsPartitionHead(p) != wantHead {
			c.Failf("partition-head", "%s: IsPartitionHead(payload %d = %s) = %v", desc(), i, hx(p), !wantHead)
		}
	}
	got, frags, err := c14Reassemble(pieces, false)
	finding := false
	if err == nil && !equalAll(got, units) && addDONL {
		// defect model of the listed finding: DONL written into every FU
		if g2, f2, err2 := c14Reassemble(pieces, true); err2 == nil && equalAll(g2, units) {
			fragmentedAny := false
			for _, f := range f2 {
				if f > 0 {
					fragmentedAny = true
				}
			}
			if fragmentedAny {
				c.Finding("fu-donl-in-every-fragment", "%s: every FU of a fragmented unit carries a 2-byte DONL, RFC 7798 4.4.3 places it in the first FU only (the parser reads it only there); payloads %s", desc(), hxs(payloads))
				finding = true
				got, frags = g2, f2
			}
		}
	}
	if err != nil {
		c.Failf("rfc7798-shape", "%s: payloads %s: %v", desc(), hxs(payloads), err)
	}
	if !finding && !equalAll(got, units) {
		c.Failf("units-differ", "%s: reassembled units %s, want %s; payloads %s", desc(), hxs(got), hxs(units), hxs(payloads))
	}
	fragmented := false
	for _, f := range frags {
		if f > 0 {
			fragmented = true
		}
	}
	if fragmented || len(payloads) < len(units) {
		c.NonTrivial()
	}
	c.Outcome(fmt.Sprintf("units=%d payloads=%d frag=%v donl=%v", len(units), minI(len(payloads), 6), fragmented, addDONL))
}

// ---- parser side -------------------------------------------------------------------

func c14Parser(c *mc.Ctx) {
	donl := c.Bool()
	form := c.Pick(4)
	var payload []byte
	var dv *uint16
	if donl {
		v := mc.From(c, []uint16{0, 0xFFFF, 0x1234})
		dv = &v
	}
	lt := mc.From(c, c14LTs)
	switch form {
	case 0:
		t := mc.From(c, []uint8{0, 1, 19, 32, 47})
		payload = ref.H265Single(ref.H265Unit(t, lt.layer, lt.tid, mc.From(c, []int{3, 4, 8}), 5), dv)
	case 1:
		n := 2 + c.Pick(2)
		var us [][]byte
		var donds []uint8
		for i := 0; i < n; i++ {
			l2 := c14LTs[(i+c.Pick(3))%3]
			us = append(us, ref.H265Unit(mc.From(c, []uint8{1, 32}), l2.layer, l2.tid, mc.From(c, []int{2, 3, 5}), byte(i*9)))
			donds = append(donds, uint8(i*100))
		}
		payload = ref.H265AP(us, dv, donds)
	case 2:
		t := mc.From(c, []uint8{1, 19, 47})
		u := ref.H265Unit(t, lt.layer, lt.tid, 12, 3)
		frs := ref.H265FU(u, []int{3, 7}, dv)
		payload = frs[c.Pick(3)]
		if c.Bool() { // also fragments with both or neither flag changed: S and E together are still parsed
			payload = clone(payload)
			payload[2] ^= 0x40
		}
	case 3:
		phs := c.Pick(32)
		flags := c.Pick(16) // F0 F1 F2 Y
		a := c.Pick(2)      // A
		ctype := mc.From(c, []uint8{0, 1, 32, 63})
		fields := uint16(a)<<15 | uint16(ctype)<<9 | uint16(phs)<<4 | uint16(flags)
		phes := fill(phs, 0xB1)
		payload = ref.H265PACI(lt.layer, lt.tid, fields, phes, fill(mc.From(c, []int{1, 3}), 0x44))
	}
	if c.Verbose() {
		c.Notef("form %d DONL=%v payload %s, every truncation", form, donl, hx(payload))
	}
	accepted := 0
	// a second receiver is used for everything: it first decodes a sibling payload of the same
	// structure that has every optional field (a start fragment, a PACI with an extension), and
	// then all the truncations in turn; what it decodes must be exactly the encoded values too
	used := &codecs.H265Packet{}
	used.WithDONL(donl)
	{
		wdv := uint16(0x7A7B)
		var dvp *uint16
		if donl {
			dvp = &wdv
		}
		var warm []byte
		switch form {
		case 0:
			warm = ref.H265Single(ref.H265Unit(1, 2, 3, 6, 9), dvp)
		case 1:
			warm = ref.H265AP([][]byte{ref.H265Unit(1, 0, 1, 4, 1), ref.H265Unit(1, 0, 1, 5, 2), ref.H265Unit(1, 0, 1, 3, 3)}, dvp, []uint8{9, 8})
		case 2:
			warm = ref.H265FU(ref.H265Unit(19, 1, 2, 12, 7), []int{4}, dvp)[0]
		default:
			warm = ref.H265PACI(1, 2, 3<<4|8, []byte{0x31, 0x32, 0xC3}, []byte{0x99})
		}
		_, _ = used.Unmarshal(warm)
	}
	for cut := 0; cut <= len(payload); cut++ {
		var in []byte
		if cut > 0 || form%2 == 0 {
			in = clone(payload[:cut])
		}
		want, werr := ref.H265Parse(in, donl)
		if _, uerr := used.Unmarshal(clone(in)); uerr == nil && werr == nil {
			c14CompareParsed(c, used, want, in, donl)
		}
		p := &codecs.H265Packet{}
		p.WithDONL(donl)
		_, err := p.Unmarshal(in)
		c.Ops(1)
		if werr != nil {
			if err == nil {
				c.Failf("truncated-accepted", "payload %s (DONL=%v) cut to %d bytes (%s) was accepted; reference parser: %v", hx(payload), donl, cut, hx(in), werr)
			}
			continue
		}
		if err != nil {
			c.Failf("well-formed-rejected", "payload %s (DONL=%v): %v", hx(in), donl, err)
		}
		accepted++
		c14CompareParsed(c, p, want, in, donl)
	}
	// the decoders of the four structures are exported types of their own: called directly on
	// the structure they are for, they accept and reject the same inputs and decode the same fields
	kind := []string{"single", "ap", "fu", "paci"}[form]
	for cut := 0; cut <= len(payload); cut++ {
		var in []byte
		if cut > 0 || form%2 == 0 {
			in = clone(payload[:cut])
		}
		want, werr := ref.H265Parse(in, donl)
		if werr == nil && want.Kind != kind {
			continue
		}
		var pk interface {
			Unmarshal([]byte) ([]byte, error)
		}
		switch kind {
		case "single":
			s := &codecs.H265SingleNALUnitPacket{}
			s.WithDONL(donl)
			pk = s
		case "ap":
			s := &codecs.H265AggregationPacket{}
			s.WithDONL(donl)
			pk = s
		case "fu":
			s := &codecs.H265FragmentationUnitPacket{}
			s.WithDONL(donl)
			pk = s
		default:
			pk = &codecs.H265PACIPacket{}
		}
		_, err := pk.Unmarshal(in)
		c.Ops(1)
		if werr != nil {
			if err == nil {
				c.Failf("truncated-accepted", "%T.Unmarshal directly: payload %s (DONL=%v) cut to %d bytes (%s) was accepted; reference parser: %v", pk, hx(payload), donl, cut, hx(in), werr)
			}
			continue
		}
		if err != nil {
			c.Failf("well-formed-rejected", "%T.Unmarshal directly: payload %s (DONL=%v): %v", pk, hx(in), donl, err)
		}
		c14ComparePacket(c, pk, want, in, donl)
	}
	c.Cases(len(payload))
	if accepted > 0 {
		c.NonTrivial()
	}
	c.Outcome(fmt.Sprintf("form=%d donl=%v", form, donl))
}

func c14U16(p *uint16) interface{} {
	if p == nil {
		return "nil"
	}
	return *p
}

func c14CompareParsed(c *mc.Ctx, p *codecs.H265Packet, want *ref.H265Parsed, in []byte, donl bool) {
	c14ComparePacket(c, p.Packet(), want, in, donl)
}

// c14ComparePacket compares one decoded structure with the reference parse.
func c14ComparePacket(c *mc.Ctx, packet interface{}, want *ref.H265Parsed, in []byte, donl bool) {
	bad := func(format string, a ...interface{}) {
		c.Failf("parsed-fields-differ", "payload %s (DONL=%v, %s): %s", hx(in), donl, want.Kind, fmt.Sprintf(format, a...))
	}
	eqDONL := func(got *uint16) bool {
		return (got == nil) == (want.DONL == nil) && (got == nil || *got == *want.DONL)
	}
	hdrOK := func(h codecs.H265NALUHeader) bool {
		return byte(h>>8) == in[0] && byte(h) == in[1]
	}
	switch pk := packet.(type) {
	case *codecs.H265SingleNALUnitPacket:
		if want.Kind != "single" {
			bad("library parsed a single NAL unit packet")
		}
		if !hdrOK(pk.PayloadHeader()) || !bytes.Equal(pk.Payload(), want.Units[0][2:]) || !eqDONL(pk.DONL()) {
			bad("header %#x payload %s DONL %v; want payload %s DONL %v", pk.PayloadHeader(), hx(pk.Payload()), c14U16(pk.DONL()), hx(want.Units[0][2:]), c14U16(want.DONL))
		}
	case *codecs.H265AggregationPacket:
		if want.Kind != "ap" {
			bad("library parsed an aggregation packet")
		}
		f := pk.FirstUnit()
		if len(pk.OtherUnits())+1 != len(want.Units) {
			bad("%d units, want %d", len(pk.OtherUnits())+1, len(want.Units))
		}
		if !bytes.Equal(f.NalUnit(), want.Units[0]) || int(f.NALUSize()) != len(want.Units[0]) || !eqDONL(f.DONL()) {
			bad("first unit %s size %d DONL %v", hx(f.NalUnit()), f.NALUSize(), c14U16(f.DONL()))
		}
		for i, o := range pk.OtherUnits() {
			if !bytes.Equal(o.NalUnit(), want.Units[i+1]) || int(o.NALUSize()) != len(want.Units[i+1]) {
				bad("unit %d = %s size %d, want %s", i+1, hx(o.NalUnit()), o.NALUSize(), hx(want.Units[i+1]))
			}
			if donl {
				if o.DOND() == nil || *o.DOND() != want.DONDs[i] {
					bad("unit %d DOND", i+1)
				}
			} else if o.DOND() != nil {
				bad("unit %d has a DOND without DONL mode", i+1)
			}
		}
	case *codecs.H265FragmentationUnitPacket:
		if want.Kind != "fu" {
			bad("library parsed a fragmentation unit")
		}
		fh := pk.FuHeader()
		if !hdrOK(pk.PayloadHeader()) || fh.S() != want.S || fh.E() != want.E || fh.FuType() != want.FuType || !bytes.Equal(pk.Payload(), want.Frag) || !eqDONL(pk.DONL()) {
			bad("S=%v E=%v FuType=%d payload %s DONL %v; want S=%v E=%v FuType=%d payload %s DONL %v", fh.S(), fh.E(), fh.FuType(), hx(pk.Payload()), c14U16(pk.DONL()), want.S, want.E, want.FuType, hx(want.Frag), c14U16(want.DONL))
		}
		h := pk.PayloadHeader()
		if h.F() || h.Type() != 49 || h.LayerID() != want.Layer || h.TID() != want.TID || !h.IsFragmentationUnit() {
			bad("FU payload header fields F=%v type=%d layer=%d tid=%d", h.F(), h.Type(), h.LayerID(), h.TID())
		}
	case *codecs.H265PACIPacket:
		if want.Kind != "paci" {
			bad("library parsed a PACI packet")
		}
		w := want.Fields
		if !hdrOK(pk.PayloadHeader()) || pk.A() != (w&0x8000 != 0) || pk.CType() != uint8(w>>9&0x3F) || pk.PHSsize() != uint8(w>>4&0x1F) ||
			pk.F0() != (w&8 != 0) || pk.F1() != (w&4 != 0) || pk.F2() != (w&2 != 0) || pk.Y() != (w&1 != 0) {
			bad("PACI fields A=%v cType=%d PHSsize=%d F0=%v F1=%v F2=%v Y=%v for %#04x", pk.A(), pk.CType(), pk.PHSsize(), pk.F0(), pk.F1(), pk.F2(), pk.Y(), w)
		}
		if !bytes.Equal(pk.PHES(), want.PHES) || !bytes.Equal(pk.Payload(), want.Payload) {
			bad("PHES %s payload %s, want %s / %s", hx(pk.PHES()), hx(pk.Payload()), hx(want.PHES), hx(want.Payload))
		}
		c14CheckTSCI(c, pk, want.Fields, want.PHES, in)
	default:
		bad("Packet() is %T", packet)
	}
}

func c14CheckTSCI(c *mc.Ctx, pk *codecs.H265PACIPacket, fields uint16, phes, in []byte) {
	t := pk.TSCI()
	present := fields&8 != 0 && fields>>4&0x1F >= 3
	if !present {
		if t != nil {
			c.Failf("tsci", "PACI %s: TSCI reported without F0 / with a PHES shorter than 3 bytes", hx(in))
		}
		return
	}
	if t == nil {
		c.Failf("tsci", "PACI %s: F0 set and PHES has %d bytes but TSCI() is nil", hx(in), len(phes))
	}
	if t.TL0PICIDX() != phes[0] || t.IrapPicID() != phes[1] || t.S() != (phes[2]&0x80 != 0) || t.E() != (phes[2]&0x40 != 0) || t.RES() != phes[2]&0x3F {
		c.Failf("tsci", "PACI with TSCI octets %s: TL0PICIDX=%d IrapPicID=%d S=%v E=%v RES=%d, want %d %d %v %v %d",
			hx(phes[:3]), t.TL0PICIDX(), t.IrapPicID(), t.S(), t.E(), t.RES(), phes[0], phes[1], phes[2]&0x80 != 0, phes[2]&0x40 != 0, phes[2]&0x3F)
	}
}

// ---- complete bit-field domains ---------------------------------------------------------

func c14Fields(c *mc.Ctx) {
	which := c.Pick(3)
	hi := byte(c.Pick(256))
	switch which {
	case 0: // all 2^16 payload headers and, for hi, all FU headers
		for lo := 0; lo < 256; lo++ {
			h := codecs.H265NALUHeader(uint16(hi)<<8 | uint16(lo))
			f, typ, layer, tid := ref.H265Hdr([]byte{hi, byte(lo)})
			if h.F() != f || h.Type() != typ || h.LayerID() != layer || h.TID() != tid ||
				h.IsAggregationPacket() != (typ == 48) || h.IsFragmentationUnit() != (typ == 49) || h.IsPACIPacket() != (typ == 50) || h.IsTypeVCLUnit() != (typ < 32) {
				c.Failf("nal-header-fields", "H265NALUHeader(%#04x): F=%v Type=%d LayerID=%d TID=%d AP=%v FU=%v PACI=%v VCL=%v", uint16(h), h.F(), h.Type(), h.LayerID(), h.TID(), h.IsAggregationPacket(), h.IsFragmentationUnit(), h.IsPACIPacket(), h.IsTypeVCLUnit())
			}
		}
		fh := codecs.H265FragmentationUnitHeader(hi)
		if fh.S() != (hi&0x80 != 0) || fh.E() != (hi&0x40 != 0) || fh.FuType() != hi&0x3F {
			c.Failf("fu-header-fields", "H265FragmentationUnitHeader(%#02x): S=%v E=%v FuType=%d", hi, fh.S(), fh.E(), fh.FuType())
		}
		c.Cases(256)
	case 1: // all 2^16 PACI field words through a PACI payload
		for lo := 0; lo < 256; lo++ {
			fields := uint16(hi)<<8 | uint16(lo)
			phs := int(fields >> 4 & 0x1F)
			in := ref.H265PACI(1, 2, fields, fill(phs, 0x3C), []byte{0x99})
			p := &codecs.H265Packet{}
			if _, err := p.Unmarshal(in); err != nil {
				c.Failf("well-formed-rejected", "PACI %s: %v", hx(in), err)
			}
			want, _ := ref.H265Parse(in, false)
			c14CompareParsed(c, p, want, in, false)
		}
		c.Cases(255)
	case 2: // all 2^24 TSCI triples: hi is the first octet, the other two are swept
		blk := c.Pick(16) // second octet block of 16
		for b1 := blk * 16; b1 < blk*16+16; b1++ {
			for b2 := 0; b2 < 256; b2++ {
				phes := []byte{hi, byte(b1), byte(b2)}
				fields := uint16(3)<<4 | 8 // PHSsize 3, F0
				in := ref.H265PACI(0, 1, fields, phes, []byte{0x77})
				var pk codecs.H265PACIPacket
				if _, err := pk.Unmarshal(in); err != nil {
					c.Failf("well-formed-rejected", "PACI %s: %v", hx(in), err)
				}
				c14CheckTSCI(c, &pk, fields, phes, in)
			}
		}
		c.Cases(16*256 - 1)
	}
	c.Ops(256)
	if c.Verbose() {
		c.Notef("bit-field domain %d, first octet %#02x", which, hi)
	}
	c.NonTrivial()
	c.Outcome(fmt.Sprintf("domain=%d", which))
}

// c14Bodies: NAL unit bodies made of the bytes the start-code scanner looks at.
func c14Bodies(c *mc.Ctx) {
	maxLen := 6
	if c.Thorough() {
		maxLen = 7
	}
	n := 1 + c.Pick(maxLen)
	sym := []byte{0x00, 0x01, 0x03, 0xFF}
	body := make([]byte, n)
	for i := range body {
		body[i] = mc.From(c, sym)
		if i >= 2 && body[i-2] == 0 && body[i-1] == 0 && body[i] <= 1 {
			c.Prune() // start-code emulation: not a legal NAL unit
		}
	}
	if body[n-1] == 0 {
		return // a trailing zero belongs to the next start code
	}
	mtu := mc.From(c, []int{6, 100})
	code := 3 + c.Pick(2)
	unit := append([]byte{19 << 1, 0x01}, body...)
	units := [][]byte{ref.H265Unit(1, 0, 1, 4, 7), unit, ref.H265Unit(1, 0, 2, 3, 0xEE)}
	c14Core(c, mtu, false, c.Bool(), units, []int{4, code, 7 - code})
}

// c14ForbiddenBit: "F/layer id/TID preserved" for units whose F bit is set. H265Packet rejects
// such payloads, so the payloader's output is inspected directly.
func c14ForbiddenBit(c *mc.Ctx) {
	mtu := mc.From(c, []int{8, 100})
	typ := mc.From(c, []uint8{1, 19, 32})
	lt := mc.From(c, c14LTs)
	size := mc.From(c, []int{3, mtu, mtu + 1, 3 * mtu})
	skipAgg := c.Bool()
	unit := ref.H265Unit(typ, lt.layer, lt.tid, size, 0x21)
	unit[0] |= 0x80
	if c.Verbose() {
		c.Notef("mtu=%d SkipAggregation=%v unit with F=1: type %d layer %d tid %d, %d bytes", mtu, skipAgg, typ, lt.layer, lt.tid, size)
	}
	pl := &codecs.H265Payloader{SkipAggregation: skipAgg}
	out := cloneAll(pl.Payload(uint16(mtu), ref.AnnexB([][]byte{unit}, []int{4})))
	c.Ops(1)
	desc := func() string {
		return fmt.Sprintf("mtu=%d SkipAggregation=%v unit %s (F=1): payloads %s", mtu, skipAgg, hx(unit), hxs(out))
	}
	if len(out) == 0 {
		c.Failf("units-differ", "%s: nothing was sent", desc())
	}
	if len(out) == 1 {
		if !bytes.Equal(out[0], unit) {
			c.Failf("units-differ", "%s: the single NAL unit packet is not the unit", desc())
		}
		c.Outcome("single")
		return
	}
	var body []byte
	for i, p := range out {
		if len(p) < 4 || len(p) > mtu {
			c.Failf("rfc7798-shape", "%s: FU %d has %d bytes", desc(), i, len(p))
		}
		f, t, layer, tid := ref.H265Hdr(p)
		if !f || t != 49 || layer != lt.layer || tid != lt.tid {
			c.Failf("fu-header", "%s: FU %d payload header F=%v type=%d layer=%d tid=%d, the unit has F=true layer=%d tid=%d", desc(), i, f, t, layer, tid, lt.layer, lt.tid)
		}
		if p[2]&0x3F != typ || (p[2]&0x80 != 0) != (i == 0) || (p[2]&0x40 != 0) != (i == len(out)-1) {
			c.Failf("fu-header", "%s: FU %d has FU header %#02x (FuType %d expected, S on the first, E on the last of %d)", desc(), i, p[2], typ, len(out))
		}
		body = append(body, p[3:]...)
	}
	if !bytes.Equal(body, unit[2:]) {
		c.Failf("units-differ", "%s: the fragments concatenate to %s", desc(), hx(body))
	}
	c.NonTrivial()
	c.Outcome("fragmented")
}
