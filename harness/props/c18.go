package props

import (
	"fmt"
	"time"

	"github.com/pion/rtp"

	"verif/mc"
)

func init() {
	register(mc.Property{
		ID:   "C18",
		Rule: "one case = (instant) for the capture-time mapping, (instant, offset) for the clock offset, (send instant, delay) for Estimate; instants = era x second offset x sub-second grid; non-trivial = sub-second part or delay non-zero",
		Assumptions: []string{
			"the time domain is a continuum: the check is exhaustive over a stated boundary grid (DESIGN.md 5 C18), instants between grid points are outside the bound",
			"clock-offset magnitudes: a 16-value boundary list, plus sweeps of every whole second 0..8191 s, every whole minute up to 2^31 s (thorough; quick: every 64th minute and the 64 around each power of two), and a logarithmic grid m x 2^k ns for k = 0..60 and 16 mantissas m in [1,2), each with sub-second additions {0, 1, 465, 499999999} ns and both signs",
			"instant sweeps: capture time at every whole hour 1970..2036 (+0 / +1 ns / +999999999 ns); Estimate for every send second within 128 s of each era start (sub-second 0 and 0.5 s) x every delay that is a multiple of 125 ms below 64 s",
			"q = 2^-18 s = 3814.697 ns; Estimate may return any instant in [send - q - 1 ns, send]",
		},
		Scenarios: []mc.Scenario{
			{Name: "capture-time-roundtrip", Tiers: "qt", ShardDepth: 2, Run: c18Capture},
			{Name: "clock-offset-roundtrip", Tiers: "qt", ShardDepth: 2, Run: c18Offset},
			{Name: "estimate-send-time", Tiers: "qt", ShardDepth: 2, Run: c18Estimate},
			{Name: "clock-offset-magnitude-sweeps", Tiers: "qt", ShardDepth: 2, Run: c18OffsetSweep},
			{Name: "instant-and-delay-sweeps", Tiers: "qt", ShardDepth: 2, Run: c18InstantSweep},
		},
	})
}

var c18Eras = []time.Time{
	time.Unix(0, 0).UTC(),
	time.Date(1985, 6, 17, 0, 0, 0, 0, time.UTC),
	time.Date(2019, 12, 31, 23, 59, 0, 0, time.UTC),
	time.Date(2036, 2, 7, 6, 26, 0, 0, time.UTC), // the NTP era ends at 06:28:16
	time.Unix(0x7C558180-130, 0).UTC(),           // 130 s before the era end
}

var c18Secs = []int64{0, 1, 62, 63, 64, 65, 127, 128}

var c18SubCache [2][]int64

func c18SubSeconds(thorough bool) []int64 {
	k := 0
	if thorough {
		k = 1
	}
	if c18SubCache[k] == nil {
		c18SubCache[k] = c18SubSecondsBuild(thorough)
	}
	return c18SubCache[k]
}

func c18SubSecondsBuild(thorough bool) []int64 {
	base := []int64{0, 1, 2, 3813, 3814, 3815, 3816, 7629, 7630, 499999999, 500000000, 500000001, 1e9 - 3816, 1e9 - 3815, 1e9 - 3814, 1e9 - 2, 1e9 - 1,
		232, 233, 234, 465, 466, 250000000, 750000000, 999999767, 999999768}
	if !thorough {
		return base
	}
	seen := map[int64]bool{}
	var out []int64
	add := func(v int64) {
		if v >= 0 && v < 1e9 && !seen[v] {
			seen[v] = true
			out = append(out, v)
		}
	}
	for _, v := range base {
		add(v)
	}
	// every nanosecond in the first and last 3 quanta, and around every 1/64 s
	for v := int64(0); v < 11500; v++ {
		add(v)
		add(1e9 - 1 - v)
	}
	for k := int64(1); k < 64; k++ {
		for d := int64(-4); d <= 4; d++ {
			add(k*15625000 + d)
		}
	}
	return out
}

func c18Instant(c *mc.Ctx) time.Time {
	era := mc.From(c, c18Eras)
	sec := mc.From(c, c18Secs)
	sub := mc.From(c, c18SubSeconds(c.Thorough()))
	return era.Add(time.Duration(sec)*time.Second + time.Duration(sub))
}

func absDur(d time.Duration) time.Duration {
	if d < 0 {
		return -d
	}
	return d
}

func c18Capture(c *mc.Ctx) {
	t := c18Instant(c)
	e := rtp.NewAbsCaptureTimeExtension(t)
	got := e.CaptureTime()
	c.Ops(2)
	c.Notef("NewAbsCaptureTimeExtension(%s).CaptureTime() = %s", t.Format(time.RFC3339Nano), got.UTC().Format(time.RFC3339Nano))
	if absDur(got.Sub(t)) > time.Nanosecond {
		c.Failf("capture-time", "instant %s (unix ns %d): CaptureTime %s differs by %v", t.Format(time.RFC3339Nano), t.UnixNano(), got.UTC().Format(time.RFC3339Nano), got.Sub(t))
	}
	// the wire form round trips as well
	b, err := e.Marshal()
	var d rtp.AbsCaptureTimeExtension
	if err != nil || d.Unmarshal(b) != nil || absDur(d.CaptureTime().Sub(t)) > time.Nanosecond {
		c.Failf("capture-time", "instant %s: wire round trip gives %s", t.Format(time.RFC3339Nano), d.CaptureTime())
	}
	if t.Nanosecond() != 0 {
		c.NonTrivial()
	}
	c.Outcome(fmt.Sprintf("diff=%d", got.Sub(t)))
}

var c18Offsets = []time.Duration{0, 1, 2, 232, 233, 999999999, time.Second - 2, time.Second, time.Second + 1, 1500 * time.Millisecond,
	63 * time.Second, 3600 * time.Second, (1<<31-1)*time.Second + 999999999, (1<<31)*time.Second - 1, (1<<30)*time.Second + 1, 86400 * 365 * 30 * time.Second}

func c18Offset(c *mc.Ctx) {
	era := mc.From(c, c18Eras)
	off := mc.From(c, c18Offsets)
	if c.Bool() {
		off = -off
	}
	extra := mc.From(c, []time.Duration{0, 1, 465, 499999999})
	if off > 0 && off+extra < (1<<31)*time.Second {
		off += extra
	} else if off < 0 && off-extra > -(1<<31)*time.Second {
		off -= extra
	}
	e := rtp.NewAbsCaptureTimeExtensionWithCaptureClockOffset(era, off)
	got := e.EstimatedCaptureClockOffsetDuration()
	c.Ops(2)
	c.Notef("offset %v -> %v", off, got)
	if got == nil {
		c.Failf("clock-offset", "offset %v: nil duration", off)
	}
	if absDur(*got-off) > time.Nanosecond || (off > 1 && *got <= 0) || (off < -1 && *got >= 0) {
		c.Failf("clock-offset", "offset %v (%d ns) recovered as %v (%d ns)", off, int64(off), *got, int64(*got))
	}
	// and through the wire
	b, err := e.Marshal()
	var d rtp.AbsCaptureTimeExtension
	if err != nil || len(b) != 16 || d.Unmarshal(b) != nil || d.EstimatedCaptureClockOffsetDuration() == nil || *d.EstimatedCaptureClockOffsetDuration() != *got {
		c.Failf("clock-offset", "offset %v: wire round trip differs", off)
	}
	if off != 0 {
		c.NonTrivial()
	}
	c.Outcome(fmt.Sprintf("diff=%d", int64(*got-off)))
	if (&rtp.AbsCaptureTimeExtension{}).EstimatedCaptureClockOffsetDuration() != nil {
		c.Failf("clock-offset", "no offset: non-nil duration")
	}
}

const c18Q = 3815 // ceil(2^-18 s in ns)

var c18Delays = []time.Duration{0, 1, 2, 3813, 3814, 3815, 3816, 7630, time.Millisecond, time.Second - 1, time.Second, time.Second + 1,
	63 * time.Second, 64*time.Second - 2*3815, 64*time.Second - 3815 - 1, 64*time.Second - 3815, 32 * time.Second, 63*time.Second + 999999999 - 3815}

func c18Estimate(c *mc.Ctx) {
	send := c18Instant(c)
	delay := mc.From(c, c18Delays)
	ext := rtp.NewAbsSendTimeExtension(send)
	// through the wire: only 24 bits travel
	b, err := ext.Marshal()
	var rx rtp.AbsSendTimeExtension
	if err != nil || rx.Unmarshal(b) != nil {
		c.Failf("estimate", "abs-send-time wire round trip failed")
	}
	recv := send.Add(delay)
	got := rx.Estimate(recv)
	c.Ops(4)
	diff := send.Sub(got)
	c.Notef("send %s delay %v: 24-bit field %s, Estimate = send - %v", send.Format(time.RFC3339Nano), delay, hx(b), diff)
	if diff < 0 || diff > c18Q+1 {
		c.Failf("estimate", "send %s (unix ns %d), delay %v, field %s: Estimate returned %s = send %+d ns (allowed: [-%d, 0])",
			send.Format(time.RFC3339Nano), send.UnixNano(), delay, hx(b), got.UTC().Format(time.RFC3339Nano), -int64(diff), c18Q+1)
	}
	if delay != 0 {
		c.NonTrivial()
	}
	wrapped := (send.Unix()+0x83AA7E80)>>6 != (recv.Unix()+0x83AA7E80)>>6
	c.Outcome(fmt.Sprintf("wrap=%v", wrapped))
}

// c18CheckOffset recovers one offset; reports the first failing one of a sweep.
func c18CheckOffset(c *mc.Ctx, era time.Time, off time.Duration) {
	if off >= (1<<31)*time.Second || off <= -(1<<31)*time.Second {
		return
	}
	e := rtp.NewAbsCaptureTimeExtensionWithCaptureClockOffset(era, off)
	got := e.EstimatedCaptureClockOffsetDuration()
	if got == nil {
		c.Failf("clock-offset", "offset %v: nil duration", off)
	}
	if absDur(*got-off) > time.Nanosecond || (off > 1 && *got <= 0) || (off < -1 && *got >= 0) {
		c.Failf("clock-offset", "offset %v (%d ns) recovered as %v (%d ns)", off, int64(off), *got, int64(*got))
	}
}

func c18OffsetSweep(c *mc.Ctx) {
	era := c18Eras[1+c.Pick(2)]
	kind := c.Pick(3)
	var mags []time.Duration
	switch kind {
	case 0: // whole seconds, blocks of 512
		blk := c.Pick(16)
		for s := blk * 512; s < (blk+1)*512; s++ {
			mags = append(mags, time.Duration(s)*time.Second)
		}
	case 1: // whole minutes up to 2^31 s, 128 blocks
		const total = (1 << 31) / 60
		blk := c.Pick(128)
		per := total/128 + 1
		for m := blk * per; m < (blk+1)*per && m <= total; m++ {
			if !c.Thorough() {
				near := false
				for k := uint(0); k < 31; k++ {
					if d := m - (1<<k)/60; d >= -32 && d < 32 {
						near = true
					}
				}
				if m%64 != 0 && !near {
					continue
				}
			}
			mags = append(mags, time.Duration(m)*time.Minute)
		}
	default: // logarithmic grid
		k := uint(c.Pick(61))
		for m := int64(16); m < 32; m++ {
			mags = append(mags, time.Duration(m<<k>>4))
		}
	}
	n := 0
	for _, mag := range mags {
		for _, extra := range []time.Duration{0, 1, 465, 499999999} {
			c18CheckOffset(c, era, mag+extra)
			c18CheckOffset(c, era, -(mag + extra))
			n += 2
		}
	}
	c.Ops(2 * n)
	c.Cases(n - 1)
	if c.Verbose() {
		c.Notef("offset sweep kind %d: %d offsets from %v to %v", kind, n, mags[0], mags[len(mags)-1])
	}
	c.NonTrivial()
	c.Outcome(fmt.Sprintf("kind=%d", kind))
}

func c18InstantSweep(c *mc.Ctx) {
	if c.Bool() {
		// capture time at every whole hour of the NTP era after 1970, 64 blocks
		const hours = (0x7C558180) / 3600
		blk := c.Pick(64)
		per := hours/64 + 1
		n := 0
		for h := blk * per; h < (blk+1)*per && h <= hours; h++ {
			for _, sub := range []int64{0, 1, 999999999} {
				t := time.Unix(int64(h)*3600, sub).UTC()
				if t.Unix() >= 0x7C558180 {
					continue
				}
				got := rtp.NewAbsCaptureTimeExtension(t).CaptureTime()
				if absDur(got.Sub(t)) > time.Nanosecond {
					c.Failf("capture-time", "instant %s (unix ns %d): CaptureTime %s differs by %v", t.Format(time.RFC3339Nano), t.UnixNano(), got.UTC().Format(time.RFC3339Nano), got.Sub(t))
				}
				n++
			}
		}
		c.Ops(2 * n)
		c.Cases(n - 1)
		c.NonTrivial()
		c.Outcome("capture-hours")
		return
	}
	era := mc.From(c, c18Eras)
	sec := c.Pick(128)
	n := 0
	for _, sub := range []time.Duration{0, 500 * time.Millisecond} {
		send := era.Add(time.Duration(sec)*time.Second + sub)
		if send.Unix() >= 0x7C558180-64 {
			continue
		}
		ext := rtp.NewAbsSendTimeExtension(send)
		for d := time.Duration(0); d < 64*time.Second-c18Q; d += 125 * time.Millisecond {
			got := ext.Estimate(send.Add(d))
			if diff := send.Sub(got); diff < 0 || diff > c18Q+1 {
				c.Failf("estimate", "send %s (unix ns %d), delay %v: Estimate returned %s = send %+d ns (allowed: [-%d, 0])",
					send.Format(time.RFC3339Nano), send.UnixNano(), d, got.UTC().Format(time.RFC3339Nano), -int64(diff), c18Q+1)
			}
			n++
		}
	}
	c.Ops(n)
	if n > 0 {
		c.Cases(n - 1)
		c.NonTrivial()
	}
	c.Outcome("estimate-delays")
}
