package props

import (
	"fmt"

	"github.com/pion/rtp"

	"verif/mc"
)

func init() {
	register(mc.Property{
		ID:   "C07",
		Rule: "sequential: one case = one start value (driven through its wraps) or one answer of the random generator; concurrent: one case = one complete interleaving of a 2-3 thread harness (start value, per-thread operation lists) under the controlled scheduler; non-trivial = the execution hands out the value 0 (a wrap happens) / at least one lock acquisition was contended",
		Assumptions: []string{
			"the concurrent part runs the working tree's sequencer.go rewritten at check time (sync -> controlled shim, Yield before every statement, Access for every field access) through go build -overlay; interleaving is explored at statement granularity, unsynchronised accesses are decided by the vector-clock happens-before oracle on every explored schedule, and cross-checked by a separate free-running go test -race pass with the real sync package",
			"harness sizes: 2 and 3 threads, 1-3 operations per thread from {NextSequenceNumber, RollOverCount}, start values {65534, 65535, 0, 7}; more threads or longer lists are outside the bound",
			"the random generator seam (build tag verif) answers every legal value of Intn(n)",
		},
		Scenarios: c07Scenarios(),
	})
}

var c07Extra []mc.Scenario // concurrent scenarios, present when built with the c07sched tag

func c07Scenarios() []mc.Scenario {
	s := []mc.Scenario{
		{Name: "fixed-all-65536-starts", Tiers: "qt", ShardDepth: 1, Run: c07Fixed},
		{Name: "random-all-answers", Tiers: "qt", ShardDepth: 1, Run: c07Random},
	}
	return append(s, c07Extra...)
}

func c07Fixed(c *mc.Ctx) {
	start := c.Pick(65536)
	wraps := 1
	if c.Thorough() {
		wraps = 3
	}
	s := rtp.NewFixedSequencer(uint16(start))
	// for odd start values a second sequencer is used alternately: the two must not influence
	// each other
	var other rtp.Sequencer
	otherWant := uint16(start) ^ 0x8000
	if start%2 == 1 {
		other = rtp.NewFixedSequencer(otherWant)
	}
	calls := (65536-start)%65536 + 3 + (wraps-1)*65536
	if start == 0 {
		calls = 3 + wraps*65536
	}
	want := uint16(start)
	zeros := uint64(0)
	for i := 0; i < calls; i++ {
		if other != nil {
			if ov := other.NextSequenceNumber(); ov != otherWant {
				c.Failf("successor", "second sequencer NewFixedSequencer(%d) used alternately: call %d returned %d, want %d", uint16(start)^0x8000, i+1, ov, otherWant)
			}
			otherWant++
		}
		v := s.NextSequenceNumber()
		if v != want {
			c.Failf("successor", "NewFixedSequencer(%d): call %d returned %d, want %d", start, i+1, v, want)
		}
		if v == 0 {
			zeros++
		}
		if v <= 2 || v >= 65534 || i < 2 || c.Thorough() || v&0xFFF == 0 {
			if r := s.RollOverCount(); r != zeros {
				c.Failf("rollover-count", "NewFixedSequencer(%d): after call %d (value %d) RollOverCount = %d, the value 0 was handed out %d times", start, i+1, v, r, zeros)
			}
		}
		want++
	}
	c.Ops(calls)
	c.Cases(calls - 1)
	if c.Verbose() {
		c.Notef("NewFixedSequencer(%d): %d calls, %d wraps", start, calls, zeros)
	}
	c.NonTrivial()
	c.Outcome(fmt.Sprintf("zeros=%d", zeros))
}

// c07Gen answers Intn with the explorer's choice.
type c07Gen struct {
	c     *mc.Ctx
	asked []int
	block int
	off   int
}

func (g *c07Gen) Intn(n int) int {
	g.asked = append(g.asked, n)
	v := g.block*128 + g.off
	if v >= n {
		v = n - 1
	}
	return v
}
func (g *c07Gen) Uint32() uint32                    { return 0 }
func (g *c07Gen) Uint64() uint64                    { return 0 }
func (g *c07Gen) GenerateString(int, string) string { return "" }

func c07Random(c *mc.Ctx) {
	block := c.Pick(256) // answers block*128 .. block*128+127
	for off := 0; off < 128; off++ {
		g := &c07Gen{c: c, block: block, off: off}
		restore := rtp.VerifSetRandom(g)
		s := rtp.NewRandomSequencer()
		first := s.NextSequenceNumber() // the seam stays in place: the start may be drawn lazily
		restore()
		for _, n := range g.asked {
			if n > 1<<15 {
				c.Failf("random-start-range", "the random start is drawn from [0,%d): start values of 2^15 or more are possible", n)
			}
		}
		if first >= 1<<15 {
			c.Failf("random-start-range", "generator answered %d (asked for %v): first sequence number %d is not below 2^15", g.block*128+g.off, g.asked, first)
		}
		if v := s.NextSequenceNumber(); v != first+1 {
			c.Failf("successor", "random sequencer: %d followed by %d", first, v)
		}
		// the count is the number of zeros handed out (a random start may be 0)
		zeros := uint64(0)
		if first == 0 {
			zeros++
		}
		if r := s.RollOverCount(); r != zeros {
			c.Failf("rollover-count", "random sequencer starting at %d: RollOverCount %d after two calls, the value 0 was handed out %d times", first, r, zeros)
		}
	}
	c.Ops(128 * 4)
	c.Cases(127)
	if c.Verbose() {
		c.Notef("random generator answers %d..%d", block*128, block*128+127)
	}
	c.NonTrivial()
	c.Outcome("ok")
}
