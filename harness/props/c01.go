package props

import (
	"bytes"
	"fmt"

	"github.com/pion/rtp"

	"verif/mc"
)

func init() {
	register(mc.Property{
		ID:   "C01",
		Rule: "one case = one rtp.Packet value built through the public API (fixed fields, CSRC count, extension configuration, payload length, padding); distinct choice paths build distinct values; non-trivial = the packet carries an extension block or RTP padding",
		Assumptions: []string{
			"every value of the first two header octets (version x P x X x CC x marker x payload type = 65536 packets, with the CSRC entries, the padding and the extension block that the bits announce)",
			"layout dimensions (CSRC count {0,1,2,15}, extension configuration, payload length {0..5,100,1200}, padding {none,1,2,4,255}) are taken in full product; fixed header fields are taken from 4 presets in the layout product and in full product of their own alphabets over 8 representative layouts",
			"one-byte blocks: 0-3 elements with ids from {1,2,7,14} and lengths {1,2,3,4,15,16}, plus the full 14-element block; two-byte blocks: 0-3 elements, ids {1,14,15,16,255}, lengths {0,1,2,3,16,17,254,255}; legacy: 5 profiles x {0,1,2,64} words (quick tier: 3-element blocks use 3-value alphabets)",
			"two-element blocks over the complete ranges: one-byte ids 1-14 (ordered pairs) x every length 1-16 for both; two-byte ids from {1,2,15,16,127,128,254,255} x lengths {0,1,15,16,17,127,128,254,255} for both; x CSRC {0,15} x payload {0,5} x padding {none,2}",
			"a further scenario covers 4-14 one-byte elements and 4-12 two-byte elements (ids 1..n resp. spread over 1..255, three length patterns each, incl. blocks longer than 255 and 1020 bytes) x CSRC {0,15} x payload lengths {0,1,9,1201,4097,65000} with position-dependent / all-zero / all-FF content x padding {none,255}; legacy blocks of 16383-65535 words (64 KiB and more) and the largest two-byte block (255 elements of 255 bytes); anything beyond (payloads above 65000 bytes, other id sets) is outside the bound",
		},
		Scenarios: []mc.Scenario{
			{Name: "layout-product", Tiers: "qt", ShardDepth: 4, Run: c01Layout},
			{Name: "fixed-fields-product", Tiers: "qt", ShardDepth: 3, Run: c01Fixed},
			{Name: "every-first-two-octets", Tiers: "qt", ShardDepth: 3, Run: c01FirstOctets},
			{Name: "many-elements-large-payloads", Tiers: "qt", ShardDepth: 3, Run: c01Large},
			{Name: "two-elements-full-id-and-length-ranges", Tiers: "qt", ShardDepth: 3, Run: c01Pairs},
			{Name: "extension-values-of-marker-octets", Tiers: "qt", ShardDepth: 3, Run: c01MarkerValues},
		},
	})
}

func c01Layout(c *mc.Ctx) {
	level := spaceQuick
	presets := fixedPresets[:2]
	if c.Thorough() {
		level, presets = spaceThorough, fixedPresets
	}
	fixed := mc.From(c, presets)
	p, w := genPacket(c, level, fixed)
	c01Oracle(c, p, wireOf(w))
}

var (
	c01Versions = []uint8{2, 0, 1, 3}
	c01PTs      = []uint8{96, 0, 1, 127}
	c01Seqs     = []uint16{0, 1, 1234, 32767, 32768, 65534, 65535}
	c01TSs      = []uint32{0, 1, 0x7FFFFFFF, 0x80000000, 0xFFFFFFFE, 0xFFFFFFFF, 0x01020304}
	c01SSRCs    = []uint32{0, 1, 0x80000000, 0xFFFFFFFF}
)

func c01Fixed(c *mc.Ctx) {
	f := fixedFields{
		version: mc.From(c, c01Versions), marker: c.Bool(), pt: mc.From(c, c01PTs),
		seq: mc.From(c, c01Seqs), ts: mc.From(c, c01TSs), ssrc: mc.From(c, c01SSRCs),
	}
	// 8 representative layouts
	layout := c.Pick(8)
	p := &rtp.Packet{}
	p.Version, p.Marker, p.PayloadType, p.SequenceNumber, p.Timestamp, p.SSRC = f.version, f.marker, f.pt, f.seq, f.ts, f.ssrc
	w := newWire(f)
	set := func(id uint8, val []byte) {
		if err := p.SetExtension(id, val); err != nil {
			c.Failf("setextension-refused", "SetExtension(%d,%d bytes): %v", id, len(val), err)
		}
		w.addElem(id, val)
	}
	switch layout {
	case 0:
	case 1:
		p.Payload = fill(7, 1)
	case 2:
		w.setProfile(0xBEDE)
		set(5, fill(3, 9))
	case 3:
		w.setProfile(0xBEDE)
		set(1, fill(1, 9))
		set(14, fill(16, 3))
		p.Payload = fill(3, 1)
		p.CSRC = []uint32{0xFFFFFFFF, 0}
	case 4:
		p.Extension, p.ExtensionProfile = true, 0x1000
		w.setProfile(0x1000)
		set(255, fill(0, 0))
		set(1, fill(20, 5))
		p.Payload = fill(1, 1)
	case 5:
		p.Extension, p.ExtensionProfile = true, 0x8001
		w.setProfile(0x8001)
		if err := p.SetExtension(0, fill(8, 2)); err != nil {
			c.Failf("setextension-refused", "legacy: %v", err)
		}
		w.w.Legacy = fill(8, 2)
	case 6:
		for i := 0; i < 15; i++ {
			p.CSRC = append(p.CSRC, uint32(i)*0x11111111)
		}
		p.Padding, p.PaddingSize = true, 255
		w.w.PadSize = 255
	case 7:
		p.Padding, p.PaddingSize = true, 1
		w.w.PadSize = 1
		p.Payload = fill(2, 1)
	}
	w.w.CSRC = p.CSRC
	w.w.Payload = p.Payload
	c01Oracle(c, p, w)
}

func c01Oracle(c *mc.Ctx, p *rtp.Packet, ww *wireBox) {
	w := ww.w
	if c.Verbose() {
		c.Notef("packet: %s", describeWire(w))
	}
	size := p.MarshalSize()
	b, err := p.Marshal()
	c.Ops(2)
	if err != nil {
		c.Failf("marshal-failed", "%s: Marshal: %v", describeWire(w), err)
	}
	if len(b) != size {
		c.Failf("marshal-size", "%s: Marshal produced %d bytes, MarshalSize() = %d", describeWire(w), len(b), size)
	}
	var q rtp.Packet
	if err := q.Unmarshal(b); err != nil {
		c.Failf("unmarshal-own-output", "%s: Unmarshal(Marshal()) failed: %v; bytes %s", describeWire(w), err, hx(b))
	}
	c.Ops(1)
	if d := comparePacket(&q, w); d != "" {
		c.Failf("roundtrip-differs", "%s: after Marshal/Unmarshal: %s; bytes %s", describeWire(w), d, hx(b))
	}
	// header alone
	hsize := p.Header.MarshalSize()
	hb, err := p.Header.Marshal()
	if err != nil {
		c.Failf("header-marshal-failed", "%s: Header.Marshal: %v", describeWire(w), err)
	}
	if len(hb) != hsize {
		c.Failf("header-marshal-size", "%s: Header.Marshal produced %d bytes, MarshalSize() = %d", describeWire(w), len(hb), hsize)
	}
	var h rtp.Header
	n, err := h.Unmarshal(hb)
	c.Ops(3)
	if err != nil {
		c.Failf("header-unmarshal-own-output", "%s: Header.Unmarshal(Header.Marshal()) failed: %v; bytes %s", describeWire(w), err, hx(hb))
	}
	if n != len(hb) {
		c.Failf("header-length", "%s: Header.Unmarshal reports %d bytes, header has %d", describeWire(w), n, len(hb))
	}
	if d := compareHeader(&h, w); d != "" {
		c.Failf("header-roundtrip-differs", "%s: after Header.Marshal/Unmarshal: %s", describeWire(w), d)
	}
	// serialising is repeatable and leaves the value as it was
	if b2, err := p.Marshal(); err != nil || !bytes.Equal(b2, b) || p.MarshalSize() != size {
		c.Failf("marshal-not-repeatable", "%s: a second Marshal gives %s (err %v, MarshalSize %d), the first gave %s", describeWire(w), hx(b2), err, p.MarshalSize(), hx(b))
	}
	if d := comparePacket(p, w); d != "" {
		c.Failf("marshal-changed-the-packet", "%s: after Marshal the packet itself differs: %s", describeWire(w), d)
	}
	if w.X || w.PadSize > 0 {
		c.NonTrivial()
	}
	kind := "none"
	if w.X {
		kind = fmt.Sprintf("%#04x/%d", w.Profile, len(w.Elements()))
	}
	c.Outcome(fmt.Sprintf("ext=%s pad=%v cc=%d", kind, w.PadSize > 0, len(w.CSRC)))
}

// c01Large: many extension elements and large payloads (pattern-based, not a full product).
func c01Large(c *mc.Ctx) {
	p := &rtp.Packet{}
	f := fixedPresets[c.Pick(2)]
	p.Version, p.Marker, p.PayloadType, p.SequenceNumber, p.Timestamp, p.SSRC = f.version, f.marker, f.pt, f.seq, f.ts, f.ssrc
	w := newWire(f)
	if c.Bool() {
		for i := 0; i < 15; i++ {
			p.CSRC = append(p.CSRC, 0x01010101*uint32(i+1))
		}
	}
	kind := c.Pick(4) // 0 many one-byte elements, 1 many two-byte elements, 2 huge legacy block, 3 the largest two-byte block
	twoByte := kind == 1
	pat := c.Pick(3)
	content := c.Pick(3) // payload content: position dependent, all zero, all 0xFF
	if kind == 2 {
		words := mc.From(c, []int{16383, 16384, 16385, 40000, 65535})
		prof := mc.From(c, []uint16{0x1234, 0x0000})
		p.Extension, p.ExtensionProfile = true, prof
		w.setProfile(prof)
		v := fill(4*words, 0x3C)
		if err := p.SetExtension(0, v); err != nil {
			c.Failf("setextension-refused", "legacy SetExtension(0,%dB): %v", len(v), err)
		}
		w.w.Legacy = clone(v)
	} else if kind == 3 {
		w.setProfile(0x1000)
		p.Extension, p.ExtensionProfile = true, 0x1000
		for i := 1; i <= 255; i++ {
			v := fill(255-pat*(i%3), byte(i))
			if err := p.SetExtension(uint8(i), v); err != nil {
				c.Failf("setextension-refused", "SetExtension(%d,%dB): %v", i, len(v), err)
			}
			w.addElem(uint8(i), clone(v))
		}
	} else if !twoByte {
		n := 4 + c.Pick(11)
		w.setProfile(0xBEDE)
		if c.Bool() {
			p.Extension, p.ExtensionProfile = true, 0xBEDE
		}
		for i := 0; i < n; i++ {
			l := []int{1 + i%16, 16, 1 + (i*7)%16}[pat]
			v := fill(l, byte(i*17))
			if err := p.SetExtension(uint8(i+1), v); err != nil {
				c.Failf("setextension-refused", "SetExtension(%d,%dB): %v", i+1, l, err)
			}
			w.addElem(uint8(i+1), clone(v))
		}
	} else {
		n := 4 + c.Pick(9)
		w.setProfile(0x1000)
		p.Extension, p.ExtensionProfile = true, 0x1000
		for i := 0; i < n; i++ {
			l := []int{(i * 37) % 256, 255, []int{0, 1, 254, 255, 17}[i%5]}[pat]
			id := uint8(1 + (i*23)%255)
			v := fill(l, byte(i*13))
			if err := p.SetExtension(id, v); err != nil {
				c.Failf("setextension-refused", "SetExtension(%d,%dB): %v", id, l, err)
			}
			w.addElem(id, clone(v))
		}
	}
	pl := mc.From(c, []int{0, 1, 9, 1201, 4097, 65000})
	if pl > 0 {
		p.Payload = fill(pl, 0x23)
		if content > 0 {
			for i := range p.Payload {
				p.Payload[i] = []byte{0, 0x00, 0xFF}[content]
			}
		}
	}
	if c.Bool() {
		p.Padding, p.PaddingSize = true, 255
		w.w.PadSize = 255
	}
	w.w.CSRC = p.CSRC
	w.w.Payload = clone(p.Payload)
	c01Oracle(c, p, w)
}

// c01Pairs: two-element blocks over the complete id and length ranges.
func c01Pairs(c *mc.Ctx) {
	p := &rtp.Packet{}
	f := fixedPresets[0]
	p.Version, p.Marker, p.PayloadType, p.SequenceNumber, p.Timestamp, p.SSRC = f.version, f.marker, f.pt, f.seq, f.ts, f.ssrc
	w := newWire(f)
	var id1, id2 uint8
	var l1, l2 int
	if c.Bool() {
		w.setProfile(0xBEDE)
		id1 = uint8(1 + c.Pick(14))
		id2 = uint8(1 + c.Pick(13))
		if id2 >= id1 {
			id2++
		}
		l1, l2 = 1+c.Pick(16), 1+c.Pick(16)
	} else {
		w.setProfile(0x1000)
		p.Extension, p.ExtensionProfile = true, 0x1000
		ids := []uint8{1, 2, 15, 16, 127, 128, 254, 255}
		lens := []int{0, 1, 15, 16, 17, 127, 128, 254, 255}
		a := c.Pick(8)
		b := c.Pick(7)
		if b >= a {
			b++
		}
		id1, id2 = ids[a], ids[b]
		l1, l2 = mc.From(c, lens), mc.From(c, lens)
	}
	for i, e := range []struct {
		id uint8
		l  int
	}{{id1, l1}, {id2, l2}} {
		v := fill(e.l, byte(0x31*(i+1)))
		if err := p.SetExtension(e.id, v); err != nil {
			c.Failf("setextension-refused", "SetExtension(%d,%dB) on profile %#x: %v", e.id, e.l, p.ExtensionProfile, err)
		}
		w.addElem(e.id, clone(v))
	}
	if c.Bool() {
		for i := 0; i < 15; i++ {
			p.CSRC = append(p.CSRC, uint32(i)<<24|0x123456)
		}
	}
	if c.Bool() {
		p.Payload = fill(5, 0x77)
	}
	if c.Bool() {
		p.Padding, p.PaddingSize = true, 2
		w.w.PadSize = 2
	}
	w.w.CSRC = p.CSRC
	w.w.Payload = clone(p.Payload)
	c01Oracle(c, p, w)
}

// c01FirstWire builds the packet for one value of the first two header octets: version, P (one
// padding byte... of size 2), X (a one-byte block with one element), CC CSRC entries, marker
// and payload type - all 65536 combinations.
func c01FirstWire(b0, b1 int) (*rtp.Packet, *wireBox) {
	f := fixedFields{version: uint8(b0 >> 6), marker: b1&0x80 != 0, pt: uint8(b1 & 0x7F), seq: 0x1234, ts: 0x01020304, ssrc: 0xCAFEBABE}
	p := &rtp.Packet{}
	p.Version, p.Marker, p.PayloadType, p.SequenceNumber, p.Timestamp, p.SSRC = f.version, f.marker, f.pt, f.seq, f.ts, f.ssrc
	w := newWire(f)
	for i := 0; i < b0&0x0F; i++ {
		p.CSRC = append(p.CSRC, uint32(0x01010101*(i+1)))
	}
	if b0&0x10 != 0 {
		w.setProfile(0xBEDE)
		_ = p.SetExtension(3, []byte{0xA1, 0xA2})
		w.addElem(3, []byte{0xA1, 0xA2})
	}
	p.Payload = []byte{0x51, 0x52, 0x53}
	if b0&0x20 != 0 {
		p.Padding, p.PaddingSize = true, 2
		w.w.PadSize = 2
	}
	w.w.CSRC = p.CSRC
	w.w.Payload = p.Payload
	return p, w
}

func c01FirstOctets(c *mc.Ctx) {
	b0 := c.Pick(256)
	for b1 := 0; b1 < 256; b1++ {
		p, w := c01FirstWire(b0, b1)
		c01Oracle(c, p, w)
	}
	c.Cases(255)
}

// c01MarkerValues: extension values whose octets look like what the parser gives a meaning to
// (0x00 = fill octet, 0xFF = id 15 / length 15, 0x10 = a header octet): every string of 1..4
// octets over that alphabet as the first value, a small menu for an optional second one, with a
// payload that is absent, all zero or ordinary, with and without RTP padding, in both profiles.
var c01MarkerAlphabet = []byte{0x00, 0xFF, 0x10}

func c01MarkerValues(c *mc.Ctx) {
	p := &rtp.Packet{}
	f := fixedPresets[0]
	p.Version, p.Marker, p.PayloadType, p.SequenceNumber, p.Timestamp, p.SSRC = f.version, f.marker, f.pt, f.seq, f.ts, f.ssrc
	w := newWire(f)
	twoByte := c.Bool()
	if twoByte {
		w.setProfile(0x1000)
		p.Extension, p.ExtensionProfile = true, 0x1000
	} else {
		w.setProfile(0xBEDE)
	}
	l := 1 + c.Pick(4)
	v := make([]byte, l)
	for i := range v {
		v[i] = mc.From(c, c01MarkerAlphabet)
	}
	second := mc.From(c, [][]byte{nil, {0x00}, {0x00, 0x00, 0x00}, {0x5A, 0x00}, {0xFF}, {0x00, 0x5A}, {0x5A}})
	if err := p.SetExtension(1, v); err != nil {
		c.Failf("setextension-refused", "SetExtension(1,%s): %v", hx(v), err)
	}
	w.addElem(1, clone(v))
	if second != nil {
		if err := p.SetExtension(2, second); err != nil {
			c.Failf("setextension-refused", "SetExtension(2,%s): %v", hx(second), err)
		}
		w.addElem(2, clone(second))
	}
	switch c.Pick(3) {
	case 1:
		p.Payload = []byte{0, 0, 0}
	case 2:
		p.Payload = fill(3, 0xA1)
	}
	if c.Bool() {
		p.Padding, p.PaddingSize = true, 2
		w.w.PadSize = 2
	}
	w.w.Payload = clone(p.Payload)
	c01Oracle(c, p, w)
}
