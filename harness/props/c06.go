package props

import (
	"bytes"
	"fmt"
	"math/bits"
	"strings"
	"time"

	"github.com/pion/rtp"
	"github.com/pion/rtp/codecs"

	"verif/mc"
)

func init() {
	register(mc.Property{
		ID:   "C06",
		Rule: "one case = (MTU, payloader, abs-send-time off / id 1 / 14 (one-byte form) / 15 / 255 (two-byte form), start configuration of sequencer + random initial timestamp + clock, sequence of Packetize / SkipSamples / GeneratePadding calls); a recording payloader wraps the real one so that the oracle knows the fragments; non-trivial = at least one call returned two or more packets",
		Assumptions: []string{
			"MTU {64,65,100,267,1200,65535}; payloaders G711, G722, Opus, H264, H265, VP8 with picture ids, VP9 flexible, AV1 with inputs shaped for each; start configurations (sequencer start, initial timestamp via the random seam) in {(0,0),(1234,0xFFFFFC40),(65534,0xFFFFFFFF),(65535,0x01020304)}; clock answers through the verif seam from instants around the 64 s wrap of the 24-bit field",
			"call alphabet: Packetize(len in {1,B-1,B,B+1,2B,3B+5,E,2E}, samples in {0,1,960,2^32-1}) (B = MTU-12, E = B less the room of the abs-send-time extension configured at that point, so that the last fragment fills its packet), SkipSamples {0,1,2^31,2^32-1}, GeneratePadding {0,1,2}, EnableAbsSendTime {0,1,15} (reconfiguration between calls): all sequences of depth 2 over the full alphabet, depth 3 (thorough 4) over a 15-call sub-alphabet; MTU 1200 and 65535 use lengths {1,B,B+1} and depth 2",
			"long runs: all sequences of 5 (quick) / 7 (thorough) calls over {Packetize(B+1,960), Packetize(1,1), SkipSamples(2^31), GeneratePadding(1), Packetize(300*B+7, 90000)} for MTU {64,100} x {G711, H264, VP8} x abs-send-time off/id 1 x 4 start configurations: trains of more than 256 packets and sequences that cross the 16-bit wrap in the middle of a train",
			"runs of 120 calls on one packetizer cycling through a pattern of 2, 3, 5 or 7 calls (Packetize small / B+1 / E / B / 2E bytes, GeneratePadding, SkipSamples) for MTU {64,100,1200} x every payloader x abs-send-time off / 1 / 15 x 4 start configurations",
			"Opus ignores the MTU by design: the size clause applies to Opus only when the payload fits the budget",
		},
		Scenarios: []mc.Scenario{
			{Name: "call-sequences-depth-2-full-alphabet", Tiers: "qt", ShardDepth: 3, Run: func(c *mc.Ctx) { c06Run(c, 2, true) }},
			{Name: "call-sequences-depth-3", Tiers: "qt", ShardDepth: 3, Run: func(c *mc.Ctx) { c06Run(c, 3, false) }},
			{Name: "call-sequences-depth-4", Tiers: "t", ShardDepth: 4, Run: func(c *mc.Ctx) { c06Run(c, 4, false) }},
			{Name: "long-sequences-and-long-trains", Tiers: "qt", ShardDepth: 3, Run: c06Long},
			{Name: "runs-of-120-calls", Tiers: "qt", ShardDepth: 3, Run: c06Run120},
		},
	})
}

// c06Recorder wraps a real payloader and records every call.
type c06Recorder struct {
	inner rtp.Payloader
	calls []c06Call
}

type c06Call struct {
	budget uint16
	input  []byte
	frags  [][]byte
}

func (r *c06Recorder) Payload(mtu uint16, payload []byte) [][]byte {
	out := r.inner.Payload(mtu, payload)
	r.calls = append(r.calls, c06Call{mtu, clone(payload), cloneAll(out)})
	return out
}

type c06Gen struct{ ts uint32 }

func (g *c06Gen) Intn(n int) int                    { return 0 }
func (g *c06Gen) Uint32() uint32                    { return g.ts }
func (g *c06Gen) Uint64() uint64                    { return 0 }
func (g *c06Gen) GenerateString(int, string) string { return "" }

var c06Payloaders = []struct {
	name  string
	mk    func() rtp.Payloader
	shape func(n int) []byte
}{
	{"G711", func() rtp.Payloader { return &codecs.G711Payloader{} }, func(n int) []byte { return fill(n, 1) }},
	{"G722", func() rtp.Payloader { return &codecs.G722Payloader{} }, func(n int) []byte { return fill(n, 2) }},
	{"Opus", func() rtp.Payloader { return &codecs.OpusPayloader{} }, func(n int) []byte { return fill(n, 3) }},
	{"H264", func() rtp.Payloader { return &codecs.H264Payloader{} }, func(n int) []byte {
		b := fill(n, 4)
		b[0] = 0x41
		for i := 1; i < n; i++ {
			b[i] |= 1
		}
		return b
	}},
	{"H265", func() rtp.Payloader { return &codecs.H265Payloader{} }, func(n int) []byte {
		b := fill(n, 5)
		b[0] = 0x02
		if n > 1 {
			b[1] = 0x01
		}
		for i := 2; i < n; i++ {
			b[i] |= 1
		}
		return b
	}},
	{"VP8/PictureID", func() rtp.Payloader { return &codecs.VP8Payloader{EnablePictureID: true} }, func(n int) []byte { return fill(n, 6) }},
	{"VP9/flexible", func() rtp.Payloader {
		return &codecs.VP9Payloader{FlexibleMode: true, InitialPictureIDFn: func() uint16 { return 0x7FFF }}
	}, func(n int) []byte { return fill(n, 7) }},
	{"AV1", func() rtp.Payloader { return &codecs.AV1Payloader{} }, func(n int) []byte {
		b := fill(n, 8)
		b[0] = 0x30
		return b
	}},
}

type c06Start struct {
	seq uint16
	ts  uint32
}

var c06Starts = []c06Start{{0, 0}, {1234, 0xFFFFFC40}, {65534, 0xFFFFFFFF}, {65535, 0x01020304}}

var c06Clock = []time.Time{
	time.Unix(1700000000, 0),
	time.Unix(1700000000+63, 999999999),
	time.Unix(1700000000+64, 1),
	time.Unix(0x7C558180-65, 500000000),
}

// c06AbsSendTime computes the 24-bit abs-send-time of an instant independently (6.18 fixed
// point of the NTP time, RFC 5905 epoch).
func c06AbsSendTime(t time.Time) []byte {
	sec := uint64(t.Unix()) + 2208988800
	hi, lo := bits.Mul64(uint64(t.Nanosecond()), 1<<32)
	frac, _ := bits.Div64(hi, lo, 1000000000)
	ntp := sec<<32 | frac
	v := ntp >> 14
	return []byte{byte(v >> 16), byte(v >> 8), byte(v)}
}

type c06Op struct {
	kind    int // 0 Packetize, 1 SkipSamples, 2 GeneratePadding, 3 EnableAbsSendTime(samples)
	lenIdx  int
	samples uint32
}

func c06Alphabet(full, bigMTU bool) []c06Op {
	var ops []c06Op
	lens := []int{0, 1, 2, 3, 4, 5, 7, 8}
	samples := []uint32{0, 1, 960, 0xFFFFFFFF}
	skips := []uint32{0, 1, 1 << 31, 0xFFFFFFFF}
	pads := []uint32{0, 1, 2}
	if !full {
		lens, samples, skips, pads = []int{0, 2, 3, 5, 7}, []uint32{1, 0xFFFFFFFF}, []uint32{1, 1 << 31}, []uint32{1, 2}
	}
	if bigMTU {
		lens = []int{0, 2, 3, 7}
	}
	for _, l := range lens {
		for _, s := range samples {
			ops = append(ops, c06Op{0, l, s})
		}
	}
	for _, s := range skips {
		ops = append(ops, c06Op{1, 0, s})
	}
	for _, s := range pads {
		ops = append(ops, c06Op{2, 0, s})
	}
	for _, id := range []uint32{0, 1, 15} {
		ops = append(ops, c06Op{3, 0, id}) // (re)configure the abs-send-time extension mid-stream
	}
	return ops
}

func c06Run(c *mc.Ctx, depth int, full bool) {
	mtu := mc.From(c, []int{64, 65, 100, 267, 1200, 65535})
	big := mtu >= 1200
	if big && depth > 2 {
		return
	}
	pi := c.Pick(len(c06Payloaders))
	absID := mc.From(c, []int{0, 1, 14, 15, 255})
	start := mc.From(c, c06Starts)
	alphabet := c06Alphabet(full, big)
	ops := make([]c06Op, depth)
	for i := range ops {
		ops[i] = mc.From(c, alphabet)
	}
	c06Drive(c, mtu, pi, absID, start, ops)
}

// c06Long: longer call sequences over a small alphabet that includes a train of more than
// 256 packets.
func c06Long(c *mc.Ctx) {
	mtu := mc.From(c, []int{64, 100})
	pi := mc.From(c, []int{0, 3, 5})
	absID := mc.From(c, []int{0, 1})
	start := mc.From(c, c06Starts)
	depth, maxLong := 5, 1
	if c.Thorough() {
		depth, maxLong = 7, 2
	}
	alphabet := []c06Op{{0, 3, 960}, {0, 0, 1}, {1, 0, 1 << 31}, {2, 0, 1}, {0, 6, 90000}}
	ops := make([]c06Op, depth)
	long := 0
	for i := range ops {
		ops[i] = mc.From(c, alphabet)
		if ops[i].lenIdx == 6 {
			long++
		}
	}
	if long > maxLong {
		return // at most one (thorough: two) very long trains per sequence (bounds the cost)
	}
	c06Decoy = c.Bool()
	defer func() { c06Decoy = false }()
	c06Drive(c, mtu, pi, absID, start, ops)
}

// c06Run120: 120 calls on one packetizer, cycling through a pattern of 2, 3, 5 or 7 calls (so
// that every position of the pattern meets every residue of the call count), with small and
// MTU-filling payloads: state that only matters after many successful calls.
func c06Run120(c *mc.Ctx) {
	mtu := mc.From(c, []int{64, 100, 1200})
	pi := c.Pick(len(c06Payloaders))
	absID := mc.From(c, []int{0, 1, 15})
	start := mc.From(c, c06Starts)
	period := mc.From(c, []int{2, 3, 5, 7})
	pattern := []c06Op{{0, 0, 960}, {0, 3, 1}, {0, 7, 960}, {2, 0, 1}, {1, 0, 7}, {0, 2, 0}, {0, 8, 3000}}
	ops := make([]c06Op, 120)
	for i := range ops {
		ops[i] = pattern[i%period]
	}
	c06Drive(c, mtu, pi, absID, start, ops)
}

// c06Decoy makes c06Drive use an unrelated second packetizer (own sequencer, own payloader, other
// SSRC, abs-send-time with another id) before every call: instances must not influence each other.
var c06Decoy bool

func c06Drive(c *mc.Ctx, mtu, pi, absID int, start c06Start, ops []c06Op) {

	rec := &c06Recorder{inner: c06Payloaders[pi].mk()}
	restore := rtp.VerifSetRandom(&c06Gen{ts: start.ts})
	p := rtp.NewPacketizer(uint16(mtu), 96, 0xDECAFBAD, rec, rtp.NewFixedSequencer(start.seq), 90000)
	restore()
	clockIdx := 0
	if !rtp.VerifSetClock(p, func() time.Time {
		t := c06Clock[clockIdx%len(c06Clock)]
		clockIdx++
		return t
	}) {
		panic(mc.EngineError{Msg: "VerifSetClock: not a *packetizer"})
	}
	if absID != 0 {
		p.EnableAbsSendTime(absID)
	}
	B := mtu - 12
	lenOf := []int{1, B - 1, B, B + 1, 2 * B, 3*B + 5, 300*B + 7}
	var trace []string
	absID0 := absID
	hist := func() string {
		return fmt.Sprintf("mtu=%d payloader=%s abs-send-time id=%d seq-start=%d initial-ts=%#x: %s", mtu, c06Payloaders[pi].name, absID0, start.seq, start.ts, strings.Join(trace, "; "))
	}
	// The property fixes how the timestamp advances, not where it starts: the first packet
	// seen anchors it (the random seam proposes start.ts; an implementation may draw from a
	// smaller range).
	seq, ts := start.seq, start.ts
	{
		// what this implementation makes of the proposal: a twin built under the same seam
		// answer is asked for one packet straight away
		restore := rtp.VerifSetRandom(&c06Gen{ts: start.ts})
		twin := rtp.NewPacketizer(uint16(mtu), 96, 0xDECAFBAD, &codecs.G711Payloader{}, rtp.NewFixedSequencer(0), 90000)
		restore()
		if first := twin.Packetize([]byte{1}, 0); len(first) == 1 {
			ts = first[0].Timestamp
		}
	}
	multi := false
	// every packet handed out so far with its serialisation at that time: a later call must
	// not change it (e.g. through a scratch buffer shared between calls)
	type handed struct {
		pk   *rtp.Packet
		wire []byte
		call string
	}
	var earlier []handed
	recheck := func() {
		for _, h := range earlier {
			now, err := h.pk.Marshal()
			if err != nil || !bytes.Equal(now, h.wire) {
				c.Failf("earlier-packet-changed", "%s: a packet returned by %s now serialises to %s (err %v), it was %s when it was returned", hist(), h.call, hx(now), err, hx(h.wire))
			}
		}
	}
	checkCommon := func(i int, pk *rtp.Packet, what string) {
		if pk.Version != 2 || pk.PayloadType != 96 || pk.SSRC != 0xDECAFBAD || len(pk.CSRC) != 0 {
			c.Failf("fixed-fields", "%s: %s packet %d: version %d PT %d SSRC %#x CSRC %v", hist(), what, i, pk.Version, pk.PayloadType, pk.SSRC, pk.CSRC)
		}
		if pk.SequenceNumber != seq {
			c.Failf("sequence-number", "%s: %s packet %d has sequence number %d, want %d", hist(), what, i, pk.SequenceNumber, seq)
		}
		seq++
		if pk.Timestamp != ts {
			c.Failf("timestamp", "%s: %s packet %d has timestamp %#x, want %#x", hist(), what, i, pk.Timestamp, ts)
		}
	}
	var decoy rtp.Packetizer
	if c06Decoy {
		decoy = rtp.NewPacketizer(uint16(mtu), 111, 0x0D0D0D0D, c06Payloaders[pi].mk(), rtp.NewFixedSequencer(start.seq^0x5555), 8000)
		decoy.EnableAbsSendTime(7)
	}
	for _, op := range ops {
		if decoy != nil {
			decoy.Packetize(c06Payloaders[pi].shape(B+3), 111)
			decoy.SkipSamples(5)
		}
		switch op.kind {
		case 0:
			n := 0
			if op.lenIdx < 7 {
				n = lenOf[op.lenIdx]
			} else {
				// relative to what is left once the abs-send-time extension (as configured at
				// this point) has its room: the last fragment fills its packet exactly
				eb := B
				if absID != 0 && absID <= 14 {
					eb = B - 8
				} else if absID != 0 {
					eb = B - 12
				}
				n = (op.lenIdx - 6) * eb
			}
			in := c06Payloaders[pi].shape(n)
			trace = append(trace, fmt.Sprintf("Packetize(%dB,%d)", n, op.samples))
			before := len(rec.calls)
			clockBefore := clockIdx
			pkts := p.Packetize(clone(in), op.samples)
			c.Ops(1)
			if len(rec.calls) != before+1 {
				c.Failf("payloader-calls", "%s: Packetize called the payloader %d times", hist(), len(rec.calls)-before)
			}
			call := rec.calls[before]
			if !bytes.Equal(call.input, in) {
				c.Failf("payloader-input", "%s: the payloader was handed %s", hist(), hx(call.input))
			}
			if int(call.budget) > B {
				c.Failf("fragment-budget", "%s: the payloader was given a budget of %d bytes, MTU-12 is %d", hist(), call.budget, B)
			}
			if len(pkts) != len(call.frags) {
				c.Failf("fragments-differ", "%s: %d packets for %d fragments", hist(), len(pkts), len(call.frags))
			}
			if len(pkts) > 1 {
				multi = true
			}
			for i, pk := range pkts {
				checkCommon(i, pk, "Packetize")
				last := i == len(pkts)-1
				if pk.Marker != last {
					c.Failf("marker", "%s: packet %d of %d has marker %v", hist(), i, len(pkts), pk.Marker)
				}
				if !bytes.Equal(pk.Payload, call.frags[i]) {
					c.Failf("fragments-differ", "%s: packet %d carries %s, the payloader returned %s", hist(), i, hx(pk.Payload), hx(call.frags[i]))
				}
				if pk.Padding || pk.PaddingSize != 0 {
					c.Failf("fixed-fields", "%s: packet %d has padding", hist(), i)
				}
				if last && absID != 0 {
					if clockIdx == clockBefore {
						c.Failf("abs-send-time", "%s: the clock was not read during the call: the extension cannot hold the send instant", hist())
					}
					// the send instant is whatever the clock answered during this call (normally one read)
					want := c06AbsSendTime(c06Clock[clockBefore%len(c06Clock)])
					for k := clockBefore; k < clockIdx; k++ {
						if w := c06AbsSendTime(c06Clock[k%len(c06Clock)]); bytes.Equal(pk.GetExtension(uint8(absID)), w) {
							want = w
						}
					}
					ids := pk.GetExtensionIDs()
					if !pk.Extension || len(ids) != 1 || int(ids[0]) != absID || !bytes.Equal(pk.GetExtension(uint8(absID)), want) {
						c.Failf("abs-send-time", "%s: last packet: extension ids %v value %s, want id %d value %s (send instant %s)", hist(), ids, hx(pk.GetExtension(uint8(absID))), absID, hx(want), c06Clock[clockBefore%len(c06Clock)].UTC())
					}
				} else if pk.Extension || len(pk.GetExtensionIDs()) != 0 {
					c.Failf("abs-send-time", "%s: packet %d of %d carries an extension (ids %v)", hist(), i, len(pkts), pk.GetExtensionIDs())
				}
				c06Wire(c, pk, hist, mtu, c06Payloaders[pi].name == "Opus" && n > int(call.budget), false)
			}
			recheck()
			if len(earlier) < 64 {
				for _, pk := range pkts {
					if w, err := pk.Marshal(); err == nil && len(earlier) < 64 {
						earlier = append(earlier, handed{pk, w, trace[len(trace)-1]})
					}
				}
			}
			ts += op.samples
		case 1:
			trace = append(trace, fmt.Sprintf("SkipSamples(%d)", op.samples))
			p.SkipSamples(op.samples)
			ts += op.samples
		case 3:
			trace = append(trace, fmt.Sprintf("EnableAbsSendTime(%d)", op.samples))
			p.EnableAbsSendTime(int(op.samples))
			absID = int(op.samples)
		case 2:
			trace = append(trace, fmt.Sprintf("GeneratePadding(%d)", op.samples))
			pkts := p.GeneratePadding(op.samples)
			c.Ops(1)
			if len(pkts) != int(op.samples) {
				c.Failf("padding-count", "%s: GeneratePadding returned %d packets", hist(), len(pkts))
			}
			for i, pk := range pkts {
				checkCommon(i, pk, "padding")
				c06Wire(c, pk, hist, 12+255, false, true)
			}
			recheck()
		}
	}
	if c.Verbose() {
		c.Notef("%s", hist())
	}
	if multi {
		c.NonTrivial()
	}
	c.Outcome(fmt.Sprintf("%s abs=%v multi=%v", c06Payloaders[pi].name, absID != 0, multi))
}

// c06Wire: the packet serialises (to at most limit bytes unless exempt) and parses back equal.
func c06Wire(c *mc.Ctx, pk *rtp.Packet, hist func() string, limit int, exempt, padding bool) {
	b, err := pk.Marshal()
	c.Ops(2)
	if err != nil {
		c.Failf("marshal-failed", "%s: Marshal of a returned packet (P=%v PaddingSize=%d payload %dB): %v", hist(), pk.Padding, pk.PaddingSize, len(pk.Payload), err)
	}
	if !exempt && len(b) > limit {
		c.Failf("over-mtu", "%s: a returned packet serialises to %d bytes, the MTU is %d (payload %dB, extension %v)", hist(), len(b), limit, len(pk.Payload), pk.Extension)
	}
	var q rtp.Packet
	if err := q.Unmarshal(b); err != nil {
		c.Failf("unparsable", "%s: Unmarshal of a serialised packet: %v", hist(), err)
	}
	if padding {
		if !q.Padding || q.PaddingSize < 1 || len(q.Payload) != 0 {
			c.Failf("padding-packet", "%s: padding packet parses to P=%v PaddingSize=%d payload %dB", hist(), q.Padding, q.PaddingSize, len(q.Payload))
		}
		return
	}
	if d := project(pk).diff(project(&q)); d != "" {
		c.Failf("wire-roundtrip", "%s: returned packet vs. its serialisation parsed back: %s", hist(), d)
	}
}
