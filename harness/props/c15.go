package props

import (
	"bytes"
	"fmt"

	"github.com/pion/rtp"
	"github.com/pion/rtp/codecs"

	"verif/mc"
	"verif/ref"
)

func init() {
	register(mc.Property{
		ID:   "C15",
		Rule: "one case = (codec, garbage prefix of 0-2 strings, frame A shape, loss subset of A's packets, frame B shape); the delivered packets of A then all packets of B go into one depacketizer and B's outputs are compared with a fresh depacketizer that sees B only; non-trivial = at least one packet of A was lost and at least one delivered",
		Assumptions: []string{
			"H264 frames A: 12 shapes of up to 10 packets mixing single NAL units, STAP-A and FU-A trains (reference encoder); frames B: the damaged frame A itself sent again byte for byte / single / STAP-A / FU-A train / FU-A train + single / FU-A trains whose start, middle or end fragment carries no payload octets, and a single FU-A packet with both S and E set (also among the A shapes); Annex-B and AVC output",
			"AV1 frames A: 8 OBU sequences packetized by AV1Payloader at small MTUs into up to 10 packets with Z/Y chains, plus a fragmented tile list and a fragmented temporal delimiter from another packetizer; frames B start with Z=0, with and without N=1, among them the damaged frame sent again and hand-built frames whose first packet opens with an empty OBU element or ends in an empty first fragment",
			"large abandoned fragments: a fragmented unit / OBU of 70 KB, 1 MiB + 1 KB and 3 MB whose end (or start, or one middle fragment) is lost, at MTU 1200, followed by each frame-B shape; for H264 also abandoned units that leave 2^16..2^22 minus {0,1,600,1197,1199} bytes buffered, followed by a frame B with full-size fragments",
			"H264 garbage heads: one or two garbage strings whose first two octets take all 65536 values (the second string: a fixed orphan middle fragment), with 0, 1 or 3 further octets, before intact frames of shapes 3, s, a2 and 2s, AVC off and on",
			"ALL loss subsets of A (2^n, n <= 10) delivered in order; thorough: a second damaged frame (H264 shapes 3, s2, E; the first three packets of three AV1 shapes) behind the first, the loss subsets running over both (n <= 13), and garbage prefixes also for frames of up to 8 packets; garbage: every sequence of up to 2 strings before frame A and 0-1 string between the delivered part of A and frame B, from an 8 (H264) / 12 (AV1) string corpus (nil, empty, orphan fragments, truncated aggregation, start of a never-finished fragment)",
		},
		Scenarios: []mc.Scenario{
			{Name: "h264-loss-then-intact-frame", Tiers: "qt", ShardDepth: 4, Run: c15H264},
			{Name: "av1-loss-then-intact-frame", Tiers: "qt", ShardDepth: 4, Run: c15AV1},
			{Name: "large-abandoned-fragments", Tiers: "qt", ShardDepth: 2, Run: c15Large},
			{Name: "h264-every-garbage-head-then-intact-frame", Tiers: "qt", ShardDepth: 2, Run: c15H264Heads},
		},
	})
}

var c15H264Garbage = [][]byte{nil, {}, {0x1C}, {0x7C, 0x85, 0xAA, 0xAB}, {0x7C, 0x05, 0xBB}, {0x18, 0x00}, {0x18, 0x00, 0x09, 0x01}, {0xFF, 0x00}}

// c15H264Frames builds frames as lists of payloads from group descriptions:
// 's' single, 'a' STAP-A of two units, digits 2-6: FU-A train of that many fragments.
func c15H264Frame(shape string, seed int) [][]byte {
	var out [][]byte
	for i, ch := range shape {
		s := byte(seed*40 + i*7)
		switch {
		case ch == 's':
			out = append(out, ref.H264Unit(1, 2, 5, s))
		case ch == 'a':
			out = append(out, ref.H264StapAPayload([][]byte{ref.H264Unit(7, 3, 4, s), ref.H264Unit(8, 3, 3, s+1)}))
		case ch >= '2' && ch <= '9':
			n := int(ch - '0')
			// fragmented units differ in type and NRI between frames and inside a frame, so
			// that a header remembered from an abandoned unit shows
			typ, nri := []uint8{5, 1, 7}[(seed+i)%3], []uint8{3, 2, 1}[(seed+i)%3]
			u := ref.H264Unit(typ, nri, 1+2*n, s)
			var cuts []int
			for k := 1; k < n; k++ {
				cuts = append(cuts, 2*k)
			}
			out = append(out, ref.H264Fragment(u, cuts)...)
		case ch == 'X':
			// one FU-A packet with both S and E set (not allowed by RFC 6184, but a unit that begins
			// with its own start marker all the same)
			u := ref.H264Unit(5, 3, 4, s)
			out = append(out, append([]byte{u[0]&0x60 | 28, 0xC0 | u[0]&0x1F}, u[1:]...))
		case ch == 'E' || ch == 'M' || ch == 'Z':
			// FU-A train of three fragments of which the start / middle / end one carries
			// no payload octets (RFC 6184 5.8: an FU payload MAY be empty)
			typ, nri := []uint8{5, 1, 7}[(seed+i)%3], []uint8{3, 2, 1}[(seed+i)%3]
			u := ref.H264Unit(typ, nri, 5, s)
			cuts := map[rune][]int{'E': {0, 2}, 'M': {2, 2}, 'Z': {2, 4}}[ch]
			out = append(out, ref.H264Fragment(u, cuts)...)
		}
	}
	return out
}

var (
	c15H264A = []string{"2", "3", "5", "s3", "3s", "a4", "23", "32s", "s2a2", "334", "6s3", "a22s2", "E", "M2", "X2"}
	c15H264B = []string{"s", "a", "3", "2s", "as3", "E", "M", "Z", "sE", "X", "Xs", "="}
)

type c15Depack interface {
	Unmarshal([]byte) ([]byte, error)
}

// c15Run delivers prefix + subset of A + B to one depacketizer and compares B's outputs
// with a fresh one.
func c15Run(c *mc.Ctx, mk func() rtp.Depacketizer, garbage, frameA [][]byte, mask int, between [][]byte, frameB [][]byte, desc func() string) {
	d := mk()
	safe := func(p []byte) {
		// outputs and errors of the history are irrelevant, panics are not
		_, _ = d.Unmarshal(p)
		c.Ops(1)
	}
	for _, g := range garbage {
		safe(clone(g))
	}
	delivered := 0
	for i, p := range frameA {
		if mask>>uint(i)&1 == 1 {
			safe(clone(p))
			delivered++
		}
	}
	for _, g := range between {
		safe(clone(g))
	}
	fresh := mk()
	for i, p := range frameB {
		got, gerr := d.Unmarshal(clone(p))
		want, werr := fresh.Unmarshal(clone(p))
		c.Ops(2)
		if (gerr == nil) != (werr == nil) || !bytes.Equal(got, want) {
			c.Failf("resync-differs", "%s: packet %d of the intact frame B (%s) decodes to %s (err %v); a fresh depacketizer gives %s (err %v)", desc(), i, hx(p), hx(got), gerr, hx(want), werr)
		}
	}
	if delivered > 0 && delivered < len(frameA) {
		c.NonTrivial()
	}
}

func c15Mask(n, mask int) string {
	s := ""
	for i := 0; i < n; i++ {
		if mask>>uint(i)&1 == 1 {
			s += "1"
		} else {
			s += "."
		}
	}
	return s
}

func c15Garbage(c *mc.Ctx, corpus [][]byte) [][]byte {
	n := c.Pick(3)
	var out [][]byte
	for i := 0; i < n; i++ {
		out = append(out, mc.From(c, corpus))
	}
	return out
}

func c15H264(c *mc.Ctx) {
	avc := c.Bool()
	a := mc.From(c, c15H264A)
	b := mc.From(c, c15H264B)
	frameA := c15H264Frame(a, 1)
	frameB := c15H264Frame(b, 2)
	if b == "=" {
		// the intact frame is the damaged one sent again, byte for byte
		frameB = c15H264Frame(a, 1)
	}
	if c.Thorough() {
		// a second damaged frame behind the first: the loss subsets run over both
		a2 := mc.From(c, []string{"", "3", "s2", "E"})
		frameA = append(frameA, c15H264Frame(a2, 3)...)
		a += "+" + a2
	}
	garbage := c15Garbage(c, c15H264Garbage)
	if len(garbage) > 0 && len(frameA) > 6 && (!c.Thorough() || len(frameA) > 8) {
		return // long frames only without a garbage prefix (bounds the product)
	}
	mask := c.Pick(1 << uint(len(frameA)))
	var between [][]byte
	if k := c.Pick(len(c15H264Garbage) + 1); k > 0 {
		between = [][]byte{c15H264Garbage[k-1]}
	}
	desc := func() string {
		return fmt.Sprintf("H264 AVC=%v garbage %s, frame A shape %q packets %s delivered %s, then garbage %s, frame B shape %q", avc, hxs(garbage), a, hxs(frameA), c15Mask(len(frameA), mask), hxs(between), b)
	}
	if c.Verbose() {
		c.Notef("%s", desc())
	}
	c15Run(c, func() rtp.Depacketizer { return &codecs.H264Packet{IsAVC: avc} }, garbage, frameA, mask, between, frameB, desc)
	c.Outcome(fmt.Sprintf("A=%s B=%s", a, b))
}

var c15AV1Garbage = [][]byte{nil, {}, {0x00}, {0x80, 0x01, 0x02}, {0x40, 0x30, 0x00}, {0x10, 0xFF, 0xFF}, {0xC0, 0x02, 0x30, 0x01}, {0x50, 0x30, 0x01, 0x02},
	{0xA0, 0x7F, 0x01}, {0x90, 0x80}, {0x80, 0x05, 0x01}, {0x90, 0x30}}

type c15AV1Shape struct {
	mtu  int
	obus []ref.OBU
	raw  [][]byte // packets from another packetizer (the library's own never sends these OBU types)
}

func c15AV1Shapes() []c15AV1Shape {
	o := func(t uint8, n int, seed byte) ref.OBU { return ref.OBU{Type: t, Payload: fill(n, seed)} }
	oe := func(t uint8, tid, sid uint8, n int, seed byte) ref.OBU {
		return ref.OBU{Type: t, HasExt: true, TID: tid, SID: sid, Payload: fill(n, seed)}
	}
	return []c15AV1Shape{
		{6, []ref.OBU{o(6, 12, 1)}, nil},
		{6, []ref.OBU{o(1, 2, 2), o(6, 14, 3)}, nil},
		{5, []ref.OBU{o(6, 9, 4), o(6, 9, 5)}, nil},
		{8, []ref.OBU{oe(6, 0, 0, 10, 6), oe(6, 1, 0, 10, 7)}, nil},
		{4, []ref.OBU{o(3, 1, 8), o(4, 20, 9)}, nil},
		{7, []ref.OBU{o(2, 0, 0), o(1, 3, 10), o(6, 30, 11)}, nil},
		{16, []ref.OBU{o(6, 40, 12), o(6, 3, 13), o(6, 50, 14)}, nil},
		{3, []ref.OBU{o(6, 14, 15)}, nil},
		// a tile list and a temporal delimiter with a body, each sent in fragments: receivers must
		// ignore these OBUs, also when their end is lost
		{raw: [][]byte{{0x50, 0x40, 0x01, 0x02, 0x03, 0x04}, {0xD0, 0x05, 0x06}, {0x90, 0x07, 0x08}}},
		{raw: [][]byte{{0x50, 0x10, 0x01, 0x02}, {0x90, 0x03}}},
	}
}

func c15AV1(c *mc.Ctx) {
	shapes := c15AV1Shapes()
	ai := c.Pick(len(shapes))
	bi := c.Pick(8)
	sa := shapes[ai]
	frameA := cloneAll(sa.raw)
	if sa.raw == nil {
		frameA = cloneAll((&codecs.AV1Payloader{}).Payload(uint16(sa.mtu), ref.AV1Stream(sa.obus, false)))
	}
	if len(frameA) > 10 {
		frameA = frameA[:10]
	}
	bShapes := []c15AV1Shape{
		{6, []ref.OBU{{Type: 6, Payload: fill(12, 0x51)}}, nil},                                     // Z=0, fragmented
		{200, []ref.OBU{{Type: 1, Payload: fill(3, 0x52)}, {Type: 6, Payload: fill(9, 0x53)}}, nil}, // N=1
		{200, []ref.OBU{{Type: 6, Payload: fill(5, 0x54)}, {Type: 6, Payload: fill(5, 0x55)}}, nil},
		{5, []ref.OBU{{Type: 1, Payload: fill(2, 0x56)}, {Type: 6, Payload: fill(11, 0x57)}}, nil}, // N=1 and fragments
	}
	if bi == 4 {
		bShapes = append(bShapes, sa) // the intact frame is the damaged one sent again
	}
	var frameB [][]byte
	if bi >= 5 {
		// frames from another packetizer: the first packet opens with an empty OBU element (which
		// receivers skip) and ends in the first fragment of an OBU that the second packet completes
		frameB = [][][]byte{
			{{0x60, 0x00, 0x30, 0xB1, 0xB2}, {0x90, 0xB3, 0xB4}},             // W=2 / W=1
			{{0x40, 0x00, 0x03, 0x30, 0xB1, 0xB2}, {0x80, 0x02, 0xB3, 0xB4}}, // W=0: every element length-prefixed
			// W=2 whose last element (announced as the start of a fragment, Y=1) has no bytes at
			// all, then a packet that claims to continue it
			{{0x60, 0x03, 0x30, 0xA1, 0xA2}, {0x90, 0x30, 0xB1, 0xB2}},
		}[bi-5]
		bi = 0
	}
	sb := bShapes[bi]
	if frameB == nil && sb.raw != nil {
		frameB = cloneAll(sb.raw)
	}
	if frameB == nil {
		frameB = cloneAll((&codecs.AV1Payloader{}).Payload(uint16(sb.mtu), ref.AV1Stream(sb.obus, false)))
	}
	if len(frameB) == 0 || frameB[0][0]&0x80 != 0 {
		panic(mc.EngineError{Msg: "frame B does not start with Z=0"})
	}
	if c.Thorough() {
		// a second damaged frame behind the first
		if k := c.Pick(4); k > 0 {
			s2 := shapes[[]int{0, 2, 4}[k-1]]
			f2 := cloneAll((&codecs.AV1Payloader{}).Payload(uint16(s2.mtu), ref.AV1Stream(s2.obus, false)))
			if len(f2) > 3 {
				f2 = f2[:3]
			}
			frameA = append(frameA, f2...)
		}
	}
	garbage := c15Garbage(c, c15AV1Garbage)
	if len(garbage) > 0 && len(frameA) > 6 && (!c.Thorough() || len(frameA) > 8) {
		return
	}
	mask := c.Pick(1 << uint(len(frameA)))
	var between [][]byte
	if k := c.Pick(len(c15AV1Garbage) + 1); k > 0 {
		between = [][]byte{c15AV1Garbage[k-1]}
	}
	desc := func() string {
		return fmt.Sprintf("AV1 garbage %s, frame A %s packets %s delivered %s, then garbage %s, frame B %s", hxs(garbage), c13Describe(sa.mtu, sa.obus, false), hxs(frameA), c15Mask(len(frameA), mask), hxs(between), hxs(frameB))
	}
	if c.Verbose() {
		c.Notef("%s", desc())
	}
	c15Run(c, func() rtp.Depacketizer { return &codecs.AV1Depacketizer{} }, garbage, frameA, mask, between, frameB, desc)
	c.Outcome(fmt.Sprintf("A=%d B=%d", ai, bi))
}

// c15Large: a very large fragmented unit of frame A is abandoned (one fragment lost).
func c15Large(c *mc.Ctx) {
	av1 := c.Bool()
	size := mc.From(c, []int{70000, 1<<20 + 1024, 3 << 20})
	if av1 && size > 2<<20 {
		return // AV1Depacketizer re-copies its buffer per fragment (quadratic): 1 MiB is enough to pass every plausible cap
	}
	lost := c.Pick(3) // 0 the last fragment, 1 the first, 2 one in the middle
	var frameA, frameB [][]byte
	var mk func() rtp.Depacketizer
	if av1 {
		frameA = cloneAll((&codecs.AV1Payloader{}).Payload(1200, ref.AV1Stream([]ref.OBU{{Type: 6, Payload: fill(size, 1)}}, false)))
		bi := c.Pick(2)
		sb := []c15AV1Shape{{6, []ref.OBU{{Type: 6, Payload: fill(12, 0x51)}}, nil}, {200, []ref.OBU{{Type: 1, Payload: fill(3, 0x52)}, {Type: 6, Payload: fill(9, 0x53)}}, nil}}[bi]
		frameB = cloneAll((&codecs.AV1Payloader{}).Payload(uint16(sb.mtu), ref.AV1Stream(sb.obus, false)))
		mk = func() rtp.Depacketizer { return &codecs.AV1Depacketizer{} }
	} else {
		// the bytes left behind by the abandoned unit are steered to sit just below a power of
		// two (where a maintainer would put a cap), and frame B comes with full-size fragments
		if k := c.Pick(8); k > 0 {
			target := 1<<uint(15+k) - mc.From(c, []int{0, 1, 600, 1197, 1199})
			size = target + 1 + 500 // header byte + a last fragment of 500 bytes that is lost
			lost = 0
		}
		u := ref.H264Unit(5, 3, size, 1)
		var cuts []int
		for k := 1198; k < size-1-500; k += 1198 {
			cuts = append(cuts, k)
		}
		cuts = append(cuts, size-1-500)
		frameA = ref.H264Fragment(u, cuts)
		if c.Bool() {
			frameB = c15H264Frame(mc.From(c, c15H264B), 2)
		} else {
			frameB = ref.H264Fragment(ref.H264Unit(1, 2, 3001, 7), []int{1198, 2396})
		}
		avc := c.Bool()
		mk = func() rtp.Depacketizer { return &codecs.H264Packet{IsAVC: avc} }
	}
	drop := []int{len(frameA) - 1, 0, len(frameA) / 2}[lost]
	d := mk()
	for i, p := range frameA {
		if i != drop {
			_, _ = d.Unmarshal(p)
		}
	}
	fresh := mk()
	for i, p := range frameB {
		got, gerr := d.Unmarshal(clone(p))
		want, werr := fresh.Unmarshal(clone(p))
		if (gerr == nil) != (werr == nil) || !bytes.Equal(got, want) {
			c.Failf("resync-differs", "av1=%v: after a %d-byte fragmented unit of frame A with fragment %d of %d lost, packet %d of the intact frame B decodes to %s (err %v); a fresh depacketizer gives %s (err %v)", av1, size, drop, len(frameA), i, hx(got), gerr, hx(want), werr)
		}
	}
	c.Ops(len(frameA) + 2*len(frameB))
	if c.Verbose() {
		c.Notef("av1=%v frame A: one unit of %d bytes in %d packets, packet %d lost; frame B %s", av1, size, len(frameA), drop, hxs(frameB))
	}
	c.NonTrivial()
	c.Outcome(fmt.Sprintf("av1=%v size=%d", av1, size))
}

// c15H264Heads: the history is a string whose first two octets (NAL header and FU header /
// first length octet) take every value - whatever the type, the indicator bits or the S/E/R
// bits of the garbage are - optionally followed by an orphan middle fragment; the intact frame
// behind it must decode as on a fresh depacketizer.
func c15H264Heads(c *mc.Ctx) {
	b0 := c.Pick(256)
	tail := mc.From(c, [][]byte{{}, {0xDE}, {0xDE, 0xAD, 0xBE}})
	second := c.Bool()
	b := mc.From(c, []string{"3", "s", "a2", "2s"})
	avc := c.Bool()
	frameB := c15H264Frame(b, 2)
	mk := func() rtp.Depacketizer { return &codecs.H264Packet{IsAVC: avc} }
	for b1 := 0; b1 < 256; b1++ {
		g := append([]byte{byte(b0), byte(b1)}, tail...)
		garbage := [][]byte{g}
		if second {
			garbage = append(garbage, []byte{0x7C, 0x05, 0xBB})
		}
		desc := func() string {
			return fmt.Sprintf("H264 AVC=%v garbage %s, then frame B shape %q", avc, hxs(garbage), b)
		}
		c15Run(c, mk, garbage, nil, 0, nil, frameB, desc)
	}
	c.Cases(255)
	c.NonTrivial()
	c.Outcome(fmt.Sprintf("head B=%s second=%v", b, second))
}
