package props

import (
	"bytes"
	"fmt"

	"github.com/pion/rtp"
	"github.com/pion/rtp/codecs"

	"verif/mc"
	"verif/ref"
)

func init() {
	register(mc.Property{
		ID:   "C08",
		Rule: "one case = (payloader configuration, MTU, history of 1-3 inputs on one instance); every call is made on an instance whose input buffers are overwritten afterwards and on a twin that gets pristine copies; non-trivial = at least one fragment was returned",
		Assumptions: []string{
			"14 payloader configurations: G711, G722, Opus, H264 +/-DisableStapA, H265 x AddDONL x SkipAggregation, VP8 without / with picture ids (fresh, and driven to the 15-bit id form), VP9 flexible / non-flexible (fixed InitialPictureIDFn), AV1",
			"alphabet strings: every string up to 5 (quick) / 6 (thorough) bytes over an 8-symbol alphabet per codec (start-code bytes, NAL / OBU / VP9 frame header octets) for every MTU 0..12; structured corpus per codec (30-60 inputs from the reference writers: NAL sequences with 3/4-byte start codes, leading garbage, no start code, OBU streams with forbidden bit / truncated LEB128 / oversize field, valid and invalid VP9 headers and every truncation of the headers of all four profiles (key and intra-only frames), lengths around the MTU) for EVERY MTU 0..40 and {63,64,65,127,128,129,255,256,1200,65535}",
			"histories: all sequences of up to 3 inputs from a 14-20 input sub-corpus per codec over 12 MTUs; pairs over the full corpus",
			"long histories: all sequences of 6 calls over 4 inputs per codec; large inputs (5000, 66000 and 140000 bytes, i.e. beyond 16-bit lengths and more than 256 / 65536 fragments; SPS+PPS of 65531 bytes; 300 small NAL units / OBUs in one call; OBUs of 16383/16384 bytes followed by a small one) for MTU {2,3,5,12,100,1200,20000,65535}",
			"AV1 elements behind the third of a packet carry a LEB128 length whose own size depends on the value: 3 or 4 small OBUs followed by a large one (free space - 3 .. + 3 bytes, 2 and 3 MTUs), last or followed by another small OBU, for every MTU 17..300 and 16370..16420 (thorough: also 2097150..2097190), so that the space left for the length-prefixed element takes every value around the 1/2-, 2/3- and 3/4-byte boundaries of the length field",
			"returning no fragment (MTU too small, unparsable input) is allowed; Opus ignores the MTU by design",
		},
		Scenarios: []mc.Scenario{
			{Name: "alphabet-strings-mtu-0..12", Tiers: "qt", ShardDepth: 3, Run: c08Strings},
			{Name: "structured-inputs-every-mtu", Tiers: "qt", ShardDepth: 2, Run: c08MTUSweep},
			{Name: "call-histories", Tiers: "qt", ShardDepth: 3, Run: c08Histories},
			{Name: "long-histories-and-large-inputs", Tiers: "qt", ShardDepth: 3, Run: c08Long},
			{Name: "steady-streams-of-equal-sized-inputs", Tiers: "qt", ShardDepth: 3, Run: c08Steady},
			{Name: "av1-length-prefixed-element-every-free-space", Tiers: "qt", ShardDepth: 2, Run: c08AV1Prefixed},
		},
	})
}

type c08Config struct {
	name     string
	mk       func() rtp.Payloader
	alphabet []byte
	family   string
	opus     bool
}

var c08Configs = []c08Config{
	{"G711", func() rtp.Payloader { return &codecs.G711Payloader{} }, []byte{0x00, 0x7F, 0xFF}, "audio", false},
	{"G722", func() rtp.Payloader { return &codecs.G722Payloader{} }, []byte{0x00, 0x7F, 0xFF}, "audio", false},
	{"Opus", func() rtp.Payloader { return &codecs.OpusPayloader{} }, []byte{0x00, 0x7F, 0xFF}, "audio", true},
	{"H264", func() rtp.Payloader { return &codecs.H264Payloader{} }, []byte{0x00, 0x01, 0x67, 0x68, 0x65, 0x09, 0x0C, 0xFF}, "h264", false},
	{"H264/DisableStapA", func() rtp.Payloader { return &codecs.H264Payloader{DisableStapA: true} }, []byte{0x00, 0x01, 0x67, 0x68, 0x65, 0x09, 0x0C, 0xFF}, "h264", false},
	{"H265", func() rtp.Payloader { return &codecs.H265Payloader{} }, []byte{0x00, 0x01, 0x40, 0x42, 0x26, 0x02, 0x62, 0xFF}, "h265", false},
	{"H265/DONL", func() rtp.Payloader { return &codecs.H265Payloader{AddDONL: true} }, []byte{0x00, 0x01, 0x40, 0x42, 0x26, 0x02, 0x62, 0xFF}, "h265", false},
	{"H265/SkipAggregation", func() rtp.Payloader { return &codecs.H265Payloader{SkipAggregation: true} }, []byte{0x00, 0x01, 0x40, 0x42, 0x26, 0x02, 0x62, 0xFF}, "h265", false},
	{"H265/DONL+SkipAggregation", func() rtp.Payloader { return &codecs.H265Payloader{AddDONL: true, SkipAggregation: true} }, []byte{0x00, 0x01, 0x40, 0x42, 0x26, 0x02, 0x62, 0xFF}, "h265", false},
	{"VP8", func() rtp.Payloader { return &codecs.VP8Payloader{} }, []byte{0x00, 0x10, 0xFF}, "vp8", false},
	{"VP8/PictureID", func() rtp.Payloader { return &codecs.VP8Payloader{EnablePictureID: true} }, []byte{0x00, 0x10, 0xFF}, "vp8", false},
	{"VP8/PictureID>=128", func() rtp.Payloader {
		p := &codecs.VP8Payloader{EnablePictureID: true}
		for i := 0; i < 130; i++ { // drive the running picture id into its 15-bit form
			p.Payload(1200, []byte{0x00})
		}
		return p
	}, []byte{0x00, 0x10, 0xFF}, "vp8", false},
	{"VP9/flexible", func() rtp.Payloader {
		return &codecs.VP9Payloader{FlexibleMode: true, InitialPictureIDFn: func() uint16 { return 0x7FFE }}
	}, []byte{0x82, 0x86, 0x88, 0xB1, 0x49, 0x83, 0x42, 0x00}, "vp9", false},
	{"VP9/non-flexible", func() rtp.Payloader {
		return &codecs.VP9Payloader{InitialPictureIDFn: func() uint16 { return 0x7FFE }}
	}, []byte{0x82, 0x86, 0x88, 0xB1, 0x49, 0x83, 0x42, 0x00}, "vp9", false},
	{"AV1", func() rtp.Payloader { return &codecs.AV1Payloader{} }, []byte{0x00, 0x0A, 0x12, 0x32, 0x30, 0x36, 0x01, 0x80}, "av1", false},
}

var c08CorpusCache = map[string][][]byte{}

// c08Corpus is the structured input corpus of a codec family.
func c08Corpus(family string) [][]byte {
	if v, ok := c08CorpusCache[family]; ok {
		return v
	}
	var out [][]byte
	add := func(b []byte) { out = append(out, b) }
	add(nil)
	add([]byte{})
	switch family {
	case "audio", "vp8":
		for _, n := range []int{1, 2, 3, 4, 5, 9, 11, 12, 13, 14, 27, 39, 40, 41, 63, 64, 65, 80, 127, 128, 129, 255, 256, 300, 1199, 1200, 1201, 2401} {
			add(fill(n, byte(n)))
		}
	case "h264":
		u := func(t uint8, n int) []byte { return ref.H264Unit(t, 3, n, byte(n)) }
		seqs := [][][]byte{
			{u(7, 4)}, {u(8, 3)}, {u(7, 4), u(8, 3)}, {u(7, 4), u(8, 3), u(5, 10)}, {u(5, 1)}, {u(5, 2)}, {u(5, 3)}, {u(5, 12)}, {u(5, 13)}, {u(5, 14)},
			{u(1, 40)}, {u(1, 41)}, {u(1, 300)}, {u(9, 2), u(1, 5)}, {u(12, 6)}, {u(7, 30), u(8, 30), u(1, 4)}, {u(8, 3), u(7, 4), u(1, 4)}, {u(1, 4), u(1, 4), u(1, 4)},
			{u(7, 10)}, {u(5, 1300)}, {u(24, 8)}, {u(28, 8)}, {u(0, 5)}, {u(31, 5)},
		}
		for i, s := range seqs {
			codes := make([]int, len(s))
			for k := range codes {
				codes[k] = 3 + (i+k)%2
			}
			add(ref.AnnexB(s, codes))
		}
		add(u(5, 9))                                                                // no start code at all
		add(append([]byte{0xAA, 0xBB}, ref.AnnexB([][]byte{u(5, 6)}, []int{3})...)) // leading garbage
		add([]byte{0, 0, 1})
		add([]byte{0, 0, 0, 1})
		add([]byte{0, 0, 1, 0, 0, 1})
		add([]byte{0, 0, 1, 0x65, 0, 0, 1})
		add([]byte{0, 0, 0, 0, 0, 1, 0x65, 0x01})
		add([]byte{0, 0, 1, 0x67, 0, 0, 0, 1, 0x68, 0, 0, 1, 0x65})
		add(append(ref.AnnexB([][]byte{u(1, 5)}, []int{4}), 0, 0))
	case "h265":
		u := func(t uint8, n int) []byte { return ref.H265Unit(t, 0, 1, n, byte(n)) }
		seqs := [][][]byte{
			{u(32, 5)}, {u(33, 6)}, {u(32, 5), u(33, 6), u(34, 4)}, {u(19, 2)}, {u(19, 3)}, {u(19, 4)}, {u(19, 11)}, {u(19, 12)}, {u(19, 13)}, {u(19, 14)}, {u(19, 15)},
			{u(1, 39)}, {u(1, 40)}, {u(1, 41)}, {u(1, 300)}, {u(1, 3), u(1, 3), u(1, 3)}, {u(1, 3), u(1, 38), u(1, 3)}, {u(39, 8), u(1, 20)},
			{u(48, 8)}, {u(49, 8)}, {u(50, 8)}, {u(1, 1300)}, {u(63, 7)},
		}
		for i, s := range seqs {
			codes := make([]int, len(s))
			for k := range codes {
				codes[k] = 3 + (i+k)%2
			}
			add(ref.AnnexB(s, codes))
		}
		add(u(19, 9))
		add([]byte{0x26})
		add([]byte{0, 0, 1})
		add([]byte{0, 0, 1, 0x26})
		add([]byte{0, 0, 1, 0x26, 0x01})
		add([]byte{0, 0, 0, 1, 0x26, 0x01, 0, 0, 1})
		add([]byte{0, 0, 1, 0, 0, 1, 0x40, 0x01, 0x0C})
		add(append([]byte{0xAA}, ref.AnnexB([][]byte{u(1, 6)}, []int{3})...))
	case "vp9":
		key := &ref.VP9FrameHeader{ShowFrame: true, ColorSpace: 2, Width: 640, Height: 360}
		key3 := &ref.VP9FrameHeader{Profile: 3, TwelveBit: true, ShowFrame: true, ColorSpace: 7, Width: 65535, Height: 1}
		inter := &ref.VP9FrameHeader{NonKey: true, ShowFrame: true}
		intra := &ref.VP9FrameHeader{NonKey: true, IntraOnly: true}
		show := &ref.VP9FrameHeader{ShowExisting: true, FrameToShowMapIdx: 5}
		full := key.Encode(0, 0)
		for _, n := range []int{0, 11, 12, 13, 14, 30, 40, 41, 300, 1300} {
			add(key.Encode(n, byte(n)))
			add(inter.Encode(n, byte(n)))
		}
		add(key3.Encode(20, 1))
		add(intra.Encode(5, 2))
		add(show.Encode(0, 0))
		add(show.Encode(9, 3))
		for cut := 1; cut < len(full); cut++ {
			add(clone(full[:cut]))
		}
		// every truncation of the uncompressed header of the other profiles and frame kinds
		for _, h := range []*ref.VP9FrameHeader{
			{Profile: 1, ShowFrame: true, ColorSpace: 7, Width: 640, Height: 360},
			{Profile: 2, ShowFrame: true, ColorSpace: 2, Width: 640, Height: 360},
			{Profile: 2, TwelveBit: true, ShowFrame: true, ColorSpace: 7, Width: 640, Height: 360},
			{Profile: 3, ShowFrame: true, ColorSpace: 1, Width: 640, Height: 360},
			key3,
			{Profile: 1, NonKey: true, IntraOnly: true},
			{Profile: 2, NonKey: true, IntraOnly: true},
			{Profile: 0, NonKey: true, IntraOnly: true},
			{Profile: 3, NonKey: true, IntraOnly: true, ColorSpace: 2},
			{Profile: 3, NonKey: true, IntraOnly: true, ColorSpace: 7, TwelveBit: true},
			{Profile: 1, NonKey: true, IntraOnly: true, ColorSpace: 7, ErrorResilient: true},
		} {
			e := h.Encode(0, 0)
			for cut := 1; cut <= len(e); cut++ {
				add(clone(e[:cut]))
			}
		}
		add([]byte{0x42, 0x00, 0x01})                // invalid frame marker
		add([]byte{0x82, 0x49, 0x83, 0x43, 0, 0, 0}) // wrong sync code
		add([]byte{0x82, 0x48, 0x83, 0x42, 0, 0, 0})
		add(fill(50, 0))
		add(fill(3, 0x80))
	case "av1":
		o := func(t uint8, n int) ref.OBU { return ref.OBU{Type: t, Payload: fill(n, byte(n+int(t)))} }
		oe := func(t, tid, sid uint8, n int) ref.OBU {
			return ref.OBU{Type: t, HasExt: true, TID: tid, SID: sid, Payload: fill(n, byte(n))}
		}
		seqs := [][]ref.OBU{
			{o(6, 0)}, {o(6, 1)}, {o(6, 10)}, {o(6, 11)}, {o(6, 12)}, {o(6, 38)}, {o(6, 39)}, {o(6, 40)}, {o(6, 126)}, {o(6, 127)}, {o(6, 128)}, {o(6, 300)}, {o(6, 1300)},
			{o(2, 0)}, {o(2, 0), o(1, 5), o(6, 20)}, {o(1, 5), o(6, 5)}, {o(8, 6), o(6, 4)}, {o(15, 3)}, {o(6, 3), o(6, 3), o(6, 3), o(6, 3)}, {o(6, 3), o(6, 3), o(6, 3), o(6, 3), o(6, 3)},
			{oe(6, 0, 0, 5), oe(6, 1, 0, 5)}, {oe(6, 0, 0, 5), oe(6, 1, 0, 5), oe(6, 2, 1, 5)}, {oe(1, 1, 0, 0), oe(1, 0, 0, 2), oe(6, 1, 0, 0)}, {o(0, 4)},
		}
		for i, s := range seqs {
			add(ref.AV1Stream(s, i%3 == 1))
		}
		for _, m := range []int{16, 40, 129, 255, 1200} { // a fragmented non-last OBU whose last piece has MTU-2 bytes
			add(ref.AV1Stream([]ref.OBU{o(6, 2*m-4), o(6, 3)}, false))
		}
		add([]byte{0x80})                   // forbidden bit
		add([]byte{0xB2, 0x01, 0x00})       // forbidden bit, rest valid
		add([]byte{0x32, 0x80})             // truncated LEB128
		add([]byte{0x32, 0x80, 0x80, 0x80}) // truncated LEB128
		add([]byte{0x32, 0x7F, 0x00})       // size larger than the buffer
		add([]byte{0x32, 0xFF, 0xFF, 0xFF, 0xFF, 0x0F, 0x00})
		add([]byte{0x34})                   // extension flag without extension octet
		// size fields of 8, 9 and 10 octets (values at and beyond 2^56 / 2^63), alone and behind a complete OBU
		for _, lebn := range []int{8, 9, 10} {
			for _, last := range []byte{0x01, 0x7F} {
				for _, mid := range []byte{0x80, 0xFF} {
					f := []byte{0x32}
					for i := 0; i < lebn-1; i++ {
						f = append(f, mid)
					}
					f = append(f, last, 0xAA, 0xBB)
					add(f)
					add(append([]byte{0x32, 0x01, 0x55}, f...))
				}
			}
		}
		add([]byte{0x36, 0x20})             // extension + size flag, no size
		add([]byte{0x32, 0x01, 0xAA, 0x32}) // second OBU cut after its header
		add([]byte{0x32, 0x01, 0xAA, 0x80}) // second OBU has the forbidden bit
		add([]byte{0x30})
		add([]byte{0x12, 0x00})
	}
	c08CorpusCache[family] = out
	return out
}

var c08Sub = map[string][]int{}

// c08SubCorpus picks a spread of the corpus for the deeper histories.
func c08SubCorpus(family string, k int) [][]byte {
	all := c08Corpus(family)
	if len(all) <= k {
		return all
	}
	var out [][]byte
	for i := 0; i < k; i++ {
		out = append(out, all[i*len(all)/k])
	}
	return out
}

type c08Past struct {
	frags [][]byte
	snap  [][]byte
	call  int
}

// c08Run drives one history on an instance whose inputs are overwritten after each call
// and on a twin fed pristine copies.
func c08Run(c *mc.Ctx, cfg c08Config, mtu int, inputs [][]byte) {
	a, b := cfg.mk(), cfg.mk()
	var past []c08Past
	returned := 0
	desc := func(k int) string {
		s := fmt.Sprintf("%s mtu=%d call %d of inputs", cfg.name, mtu, k)
		for _, in := range inputs {
			s += " " + hx(in)
		}
		return s
	}
	for k, in := range inputs {
		bufA, intact := guard(in)
		bufB := clone(in)
		outA := a.Payload(uint16(mtu), bufA)
		if !bytes.Equal(bufA, in) {
			c.Failf("input-modified", "%s: Payload changed the caller's buffer to %s", desc(k), hx(bufA))
		}
		if !intact() {
			c.Failf("input-modified", "%s: Payload wrote into the caller's array outside the slice it was given (spare capacity)", desc(k))
		}
		outB := b.Payload(uint16(mtu), bufB)
		c.Ops(2)
		for i, f := range outA {
			if cfg.opus {
				continue
			}
			if len(f) > mtu {
				c.Failf("fragment-over-mtu", "%s: fragment %d of %d has %d bytes: %s", desc(k), i, len(outA), len(f), hx(f))
			}
			if len(f) == 0 && len(in) > 0 {
				c.Failf("empty-fragment", "%s: fragment %d of %d is empty", desc(k), i, len(outA))
			}
		}
		if cfg.opus && in != nil && (len(outA) != 1 || !bytes.Equal(outA[0], in)) {
			c.Failf("opus-passthrough", "%s: got %s", desc(k), hxs(outA))
		}
		if !equalAll(outA, outB) {
			c.Failf("retained-caller-memory", "%s: the instance whose earlier input buffers were overwritten after Payload returned gives %s, the twin fed untouched copies gives %s", desc(k), hxs(outA), hxs(outB))
		}
		for i, f := range outA {
			if lenOverlap(f, bufA) {
				c.Failf("fragment-aliases-input", "%s: fragment %d shares memory with the caller's buffer", desc(k), i)
			}
		}
		snap := cloneAll(outA)
		scribble(bufA)
		past = append(past, c08Past{outA, snap, k})
		for _, p := range past {
			if !equalAll(p.frags, p.snap) {
				c.Failf("returned-fragment-changed", "%s: fragments returned by call %d changed afterwards (input overwritten / later call): now %s, were %s", desc(k), p.call, hxs(p.frags), hxs(p.snap))
			}
		}
		returned += len(outA)
	}
	if returned > 0 {
		c.NonTrivial()
	}
	c.Outcome(fmt.Sprintf("%s frags=%d", cfg.name, minI(returned, 4)))
}

func c08Strings(c *mc.Ctx) {
	cfg := mc.From(c, c08Configs)
	mtu := c.Pick(13)
	maxLen := 5
	if c.Thorough() {
		maxLen = 6
	}
	if len(cfg.alphabet) == 3 {
		maxLen = 6
	}
	n := c.Pick(maxLen + 1)
	in := make([]byte, n)
	for i := range in {
		in[i] = mc.From(c, cfg.alphabet)
	}
	if c.Verbose() {
		c.Notef("%s mtu=%d input %s", cfg.name, mtu, hx(in))
	}
	c08Run(c, cfg, mtu, [][]byte{in})
}

var c08MTUs = func() []int {
	var m []int
	for i := 0; i <= 40; i++ {
		m = append(m, i)
	}
	return append(m, 63, 64, 65, 127, 128, 129, 255, 256, 1200, 65535)
}()

func c08MTUSweep(c *mc.Ctx) {
	cfg := mc.From(c, c08Configs)
	mtu := mc.From(c, c08MTUs)
	in := mc.From(c, c08Corpus(cfg.family))
	if c.Verbose() {
		c.Notef("%s mtu=%d input %s", cfg.name, mtu, hx(in))
	}
	c08Run(c, cfg, mtu, [][]byte{in})
}

func c08Histories(c *mc.Ctx) {
	cfg := mc.From(c, c08Configs)
	mtu := mc.From(c, []int{0, 1, 2, 3, 4, 5, 8, 12, 16, 40, 100, 1200})
	depth := 2 + c.Pick(2)
	corpus := c08Corpus(cfg.family)
	if depth == 3 {
		k := 14
		if c.Thorough() {
			k = 20
		}
		corpus = c08SubCorpus(cfg.family, k)
	}
	var inputs [][]byte
	for i := 0; i < depth; i++ {
		inputs = append(inputs, mc.From(c, corpus))
	}
	if c.Verbose() {
		c.Notef("%s mtu=%d history %s", cfg.name, mtu, hxs(inputs))
	}
	c08Run(c, cfg, mtu, inputs)
}

var c08LargeCache = map[string][][]byte{}

func c08Large(family string) [][]byte {
	if v, ok := c08LargeCache[family]; ok {
		return v
	}
	var out [][]byte
	for _, n := range []int{5000, 66000, 140000} {
		var b []byte
		switch family {
		case "h264":
			b = ref.AnnexB([][]byte{ref.H264Unit(5, 3, n, 1)}, []int{4})
		case "h265":
			b = ref.AnnexB([][]byte{ref.H265Unit(19, 0, 1, n, 1)}, []int{3})
		case "vp9":
			b = (&ref.VP9FrameHeader{ShowFrame: true, ColorSpace: 2, Width: 1920, Height: 1080}).Encode(n, 1)
		case "av1":
			b = ref.AV1Stream([]ref.OBU{{Type: 1, Payload: fill(5, 1)}, {Type: 6, Payload: fill(n, 2)}}, n == 66000)
		default:
			b = fill(n, 7)
		}
		out = append(out, b)
	}
	switch family {
	case "h264":
		out = append(out, ref.AnnexB([][]byte{ref.H264Unit(7, 3, 32766, 1), ref.H264Unit(8, 3, 32765, 2), ref.H264Unit(5, 3, 10, 3)}, []int{4, 4, 3}))
		out = append(out, ref.AnnexB([][]byte{ref.H264Unit(7, 3, 300, 1), ref.H264Unit(8, 3, 6, 2), ref.H264Unit(5, 3, 10, 3)}, []int{4, 4, 3}))
	case "h265":
		var many [][]byte
		var codes []int
		for i := 0; i < 300; i++ {
			many = append(many, ref.H265Unit(1, 0, 1, 3, byte(i)))
			codes = append(codes, 3)
		}
		out = append(out, ref.AnnexB(many, codes))
		out = append(out, ref.AnnexB([][]byte{ref.H265Unit(32, 0, 1, 300, 1), ref.H265Unit(33, 0, 1, 256, 2), ref.H265Unit(1, 0, 1, 4, 3)}, []int{4, 4, 3}))
	case "av1":
		out = append(out, ref.AV1Stream([]ref.OBU{{Type: 6, Payload: fill(16383, 1)}, {Type: 6, Payload: fill(3, 2)}}, false))
		out = append(out, ref.AV1Stream([]ref.OBU{{Type: 6, Payload: fill(16384, 1)}, {Type: 6, Payload: fill(3, 2)}}, true))
		var many []ref.OBU
		for i := 0; i < 300; i++ {
			many = append(many, ref.OBU{Type: 6, Payload: fill(1+i%2, byte(i))})
		}
		out = append(out, ref.AV1Stream(many, false))
	}
	c08LargeCache[family] = out
	return out
}

func c08Long(c *mc.Ctx) {
	cfg := mc.From(c, c08Configs)
	if c.Bool() {
		mtu := mc.From(c, []int{2, 3, 5, 12, 100, 1200, 20000, 65535})
		in := mc.From(c, c08Large(cfg.family))
		if mtu < 12 && len(in) > 70000 {
			return
		}
		if c.Verbose() {
			c.Notef("%s mtu=%d large input of %d bytes", cfg.name, mtu, len(in))
		}
		c08Run(c, cfg, mtu, [][]byte{in})
		return
	}
	mtu := mc.From(c, []int{3, 8, 40})
	corpus := c08SubCorpus(cfg.family, 4)
	var inputs [][]byte
	for i := 0; i < 6; i++ {
		inputs = append(inputs, mc.From(c, corpus))
	}
	if c.Verbose() {
		c.Notef("%s mtu=%d history %s", cfg.name, mtu, hxs(inputs))
	}
	c08Run(c, cfg, mtu, inputs)
}

// c08Sized builds one input of about n bytes for a codec family.
func c08Sized(family string, n int, seed byte) []byte {
	switch family {
	case "h264":
		return ref.AnnexB([][]byte{ref.H264Unit(1, 2, maxI(n, 2), seed)}, []int{4})
	case "h265":
		return ref.AnnexB([][]byte{ref.H265Unit(1, 0, 1, maxI(n, 2), seed)}, []int{4})
	case "vp9":
		return (&ref.VP9FrameHeader{NonKey: true, ShowFrame: true}).Encode(n, seed)
	case "av1":
		return ref.AV1Stream([]ref.OBU{{Type: 6, Payload: fill(n, seed)}}, seed%2 == 0)
	}
	return fill(n, seed)
}

var c08SteadySizes = []int{1, 2, 4, 8, 16, 32, 64, 128, 256, 512, 1024, 2048, 4096, 3, 20, 160, 960, 1275}

// c08Steady feeds one instance a long run of distinct inputs of one size.
func c08Steady(c *mc.Ctx) {
	cfg := mc.From(c, c08Configs)
	size := mc.From(c, c08SteadySizes)
	mtu := 1200
	if c.Bool() {
		mtu = maxI(size, 8)
	}
	calls := 2*8192/size + 2
	if calls < 40 {
		calls = 40
	}
	if calls > 4200 {
		calls = 4200
	}
	if cfg.family != "audio" && calls > 600 {
		calls = 600
	}
	if c.Verbose() {
		c.Notef("%s mtu=%d: %d inputs of size %d", cfg.name, mtu, calls, size)
	}
	a, b := cfg.mk(), cfg.mk()
	type past struct{ frags, snap [][]byte }
	var hist []past
	check := func(k, from int) {
		for j := from; j < len(hist); j++ {
			if !equalAll(hist[j].frags, hist[j].snap) {
				c.Failf("returned-fragment-changed", "%s mtu=%d, stream of %d-byte inputs: fragments returned by call %d changed by call %d: now %s, were %s", cfg.name, mtu, size, j, k, hxs(hist[j].frags), hxs(hist[j].snap))
			}
		}
	}
	returned := 0
	for k := 0; k < calls; k++ {
		in := c08Sized(cfg.family, size, byte(k*7+1))
		bufA, intact := guard(in)
		bufB := clone(in)
		outA := a.Payload(uint16(mtu), bufA)
		if !bytes.Equal(bufA, in) || !intact() {
			c.Failf("input-modified", "%s mtu=%d, stream of %d-byte inputs, call %d: Payload changed the caller's buffer (or its spare capacity)", cfg.name, mtu, size, k)
		}
		outB := b.Payload(uint16(mtu), bufB)
		c.Ops(2)
		if !equalAll(outA, outB) {
			c.Failf("retained-caller-memory", "%s mtu=%d, stream of %d-byte inputs, call %d: the instance whose earlier input buffers were overwritten gives %s, the twin %s", cfg.name, mtu, size, k, hxs(outA), hxs(outB))
		}
		for i, f := range outA {
			if !cfg.opus && len(f) > mtu {
				c.Failf("fragment-over-mtu", "%s mtu=%d, stream of %d-byte inputs, call %d: fragment %d has %d bytes", cfg.name, mtu, size, k, i, len(f))
			}
			if len(f) == 0 {
				c.Failf("empty-fragment", "%s mtu=%d, stream of %d-byte inputs, call %d: fragment %d is empty", cfg.name, mtu, size, k, i)
			}
			if lenOverlap(f, bufA) {
				c.Failf("fragment-aliases-input", "%s mtu=%d, stream of %d-byte inputs, call %d: fragment %d shares memory with the caller's buffer", cfg.name, mtu, size, k, i)
			}
		}
		if cfg.opus && (len(outA) != 1 || !bytes.Equal(outA[0], in)) {
			c.Failf("opus-passthrough", "stream of %d-byte inputs, call %d: got %s", size, k, hxs(outA))
		}
		hist = append(hist, past{outA, cloneAll(outA)})
		scribble(bufA)
		check(k, maxI(0, len(hist)-4))
		returned += len(outA)
	}
	check(calls, 0)
	if returned > 0 {
		c.NonTrivial()
	}
	c.Outcome(fmt.Sprintf("%s steady frags/call=%d", cfg.name, minI(returned/calls, 4)))
}

// c08AV1Prefixed: a packet's fourth and later elements are length-prefixed, and the size of the
// prefix depends on the length it announces; the space left behind k small elements is taken
// through every value around the boundaries of the LEB128 length.
func c08AV1Prefixed(c *mc.Ctx) {
	var cfg c08Config
	for _, x := range c08Configs {
		if x.family == "av1" {
			cfg = x
		}
	}
	nm := 284 + 51
	if c.Thorough() {
		nm += 41
	}
	mi := c.Pick(nm)
	mtu := 17 + mi
	if mi >= 284 {
		mtu = 16370 + mi - 284
	}
	if mi >= 284+51 {
		mtu = 2097150 + mi - 284 - 51
	}
	k := 3 + c.Pick(2)
	free := mtu - 1 - 5*k
	sizes := []int{free - 3, free - 2, free - 1, free, free + 1, free + 2, free + 3, 2 * mtu, 3*mtu + 7}
	n := mc.From(c, sizes)
	last := c.Bool()
	if n < 1 {
		return
	}
	var obus []ref.OBU
	for i := 0; i < k; i++ {
		obus = append(obus, ref.OBU{Type: 6, Payload: fill(3, byte(i))})
	}
	obus = append(obus, ref.OBU{Type: 6, Payload: fill(n-1, 7)}) // n bytes with its header
	if !last {
		obus = append(obus, ref.OBU{Type: 6, Payload: fill(2, 9)})
	}
	if c.Verbose() {
		c.Notef("AV1 mtu=%d: %d OBUs of 4 bytes, one of %d bytes (space left %d), last=%v", mtu, k, n, free, last)
	}
	c08Run(c, cfg, mtu, [][]byte{ref.AV1Stream(obus, last)})
}
