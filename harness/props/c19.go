package props

import (
	"bytes"
	"fmt"

	"github.com/pion/rtp"

	"verif/mc"
	"verif/ref"
)

func init() {
	register(mc.Property{
		ID:   "C19",
		Rule: "encoder: one case = one valid VLA (stream count, RID, subset of the stream x spatial slots, temporal-layer pattern, bitrate pattern, resolution on/off) marshalled, compared byte for byte with the reference encoder, unmarshalled into a fresh and a used receiver; invalid values must be rejected; decoder: one case = one byte string (short strings, truncations and single-byte mutations of valid encodings) into a fresh and a used receiver; non-trivial = allocation has at least two active layers / the decoder accepts",
		Assumptions: []string{
			"EVERY subset of the (stream < count, spatial) slots for count 1..4 (16 + 256 + 4096 + 65536) x every RID; temporal-layer patterns all-1 / all-4 / cyclic 1-2-3-4 (+ cyclic from 3) ; bitrate patterns small / cycling through the LEB128 size classes {0,1,127,128,16383,16384,2^21,2^28} / all 2^28 / cycling through every bit length (2^j and 2^j-1, j = 1..32, i.e. up to 2^32-1; bitrates beyond 32 bits are not demanded: the LEB128 reader of the AV1 specification, which the extension shares, is defined up to 2^32-1); resolution off / on with sizes cycling through {1,2,256,65536} and frame rates {0,1,255} (with the bitrate pattern all 2^28 every record is 1x1 at 0 fps, i.e. all zero octets; with the bit-length pattern every record is 65536x65536 at 255 fps, all FF octets)",
			"temporal-layer count vectors: for 13 slot sets of 1..16 active layers, EVERY vector in {1..4}^L for L <= 8, and for L > 8 every vector that is 1 except in one or two positions; bitrate patterns small / LEB128 classes; resolution off / on",
			"the empty allocation is only round-tripped (its layout is a special case of the specification)",
			"decoder strings: nil, empty, all strings of 1-2 bytes, all 3-byte strings (thorough) / first byte x 40x40 symbols (quick); every truncation and single-byte replacement of 300 valid encodings",
		},
		Scenarios: []mc.Scenario{
			// the cheap scenarios first: what they leave of their share of the budget goes to the others
			{Name: "marshal-rejects-invalid", Tiers: "qt", ShardDepth: 2, Run: c19Invalid},
			{Name: "decoder-short-strings", Tiers: "qt", ShardDepth: 1, Run: c19Short},
			{Name: "decoder-mutations", Tiers: "qt", ShardDepth: 3, Run: c19Mutations},
			{Name: "every-temporal-layer-count-vector", Tiers: "qt", ShardDepth: 3, Run: c19TLVectors},
			{Name: "encode-every-slot-subset", Tiers: "qt", ShardDepth: 3, Run: c19Encode},
		},
	})
}

var c19RateClasses = []int{0, 1, 127, 128, 16383, 16384, 1 << 21, 1 << 28}

var c19BitLengths = func() []int {
	var out []int
	for j := 1; j <= 32; j++ { // up to 2^32-1: what a leb128() of the AV1 specification may carry
		if j < 32 {
			out = append(out, 1<<uint(j))
		}
		out = append(out, 1<<uint(j)-1)
	}
	return out
}()

func c19Build(count, rid int, mask uint32, tlPat, ratePat int, hasRes bool) (*rtp.VLA, *ref.VLAValue) {
	return c19BuildTL(count, rid, mask, func(k int) int {
		switch tlPat {
		case 0:
			return 1
		case 1:
			return 4
		case 2:
			return k%4 + 1
		}
		return (k+2)%4 + 1
	}, ratePat, hasRes)
}

func c19BuildTL(count, rid int, mask uint32, tl func(k int) int, ratePat int, hasRes bool) (*rtp.VLA, *ref.VLAValue) {
	v := &rtp.VLA{RTPStreamID: rid, RTPStreamCount: count, HasResolutionAndFramerate: hasRes}
	w := &ref.VLAValue{RID: rid, Count: count, HasRes: hasRes}
	k := 0
	for s := 0; s < count; s++ {
		for sp := 0; sp < 4; sp++ {
			if mask>>uint(s*4+sp)&1 == 0 {
				continue
			}
			ntl := tl(k)
			rates := make([]int, ntl)
			for t := range rates {
				switch ratePat {
				case 0:
					rates[t] = k*5 + t
				case 1:
					rates[t] = c19RateClasses[(k+t)%8]
				case 3:
					// every bit length: 2^j and 2^j - 1 for j = 1..32, entered at a point that
					// depends on the slot set
					rates[t] = c19BitLengths[(int(mask%61)+k*4+t)%len(c19BitLengths)]
				default:
					rates[t] = 1 << 28
				}
			}
			sl := rtp.SpatialLayer{RTPStreamID: s, SpatialID: sp, TargetBitrates: rates}
			rl := ref.VLALayer{Stream: s, Spatial: sp, Bitrates: rates}
			if hasRes {
				sl.Width, sl.Height, sl.Framerate = []int{1, 2, 256, 65536}[k%4], []int{65536, 256, 2, 1}[(k+1)%4], []int{0, 1, 255}[k%3]
				switch ratePat {
				case 2: // every record consists of zero octets (1x1 at 0 fps)
					sl.Width, sl.Height, sl.Framerate = 1, 1, 0
				case 3: // every record consists of FF octets
					sl.Width, sl.Height, sl.Framerate = 65536, 65536, 255
				}
				rl.Width, rl.Height, rl.Framerate = sl.Width, sl.Height, sl.Framerate
			}
			v.ActiveSpatialLayer = append(v.ActiveSpatialLayer, sl)
			w.Layers = append(w.Layers, rl)
			k++
		}
	}
	return v, w
}

func c19Equal(a, b *rtp.VLA) string {
	if a.RTPStreamID != b.RTPStreamID || a.RTPStreamCount != b.RTPStreamCount || a.HasResolutionAndFramerate != b.HasResolutionAndFramerate {
		return fmt.Sprintf("RID/count/hasRes %d/%d/%v vs %d/%d/%v", a.RTPStreamID, a.RTPStreamCount, a.HasResolutionAndFramerate, b.RTPStreamID, b.RTPStreamCount, b.HasResolutionAndFramerate)
	}
	if len(a.ActiveSpatialLayer) != len(b.ActiveSpatialLayer) {
		return fmt.Sprintf("%d active layers vs %d", len(a.ActiveSpatialLayer), len(b.ActiveSpatialLayer))
	}
	for i := range a.ActiveSpatialLayer {
		x, y := a.ActiveSpatialLayer[i], b.ActiveSpatialLayer[i]
		if x.RTPStreamID != y.RTPStreamID || x.SpatialID != y.SpatialID || fmt.Sprint(x.TargetBitrates) != fmt.Sprint(y.TargetBitrates) {
			return fmt.Sprintf("layer %d: %+v vs %+v", i, x, y)
		}
		// without resolution records the three fields are zero on both sides (the builder leaves
		// them zero; a decoder must not leave what an earlier decode put there)
		if x.Width != y.Width || x.Height != y.Height || x.Framerate != y.Framerate {
			return fmt.Sprintf("layer %d resolution: %+v vs %+v", i, x, y)
		}
	}
	return ""
}

// c19TLVectors: every vector of temporal-layer counts for allocations of up to 8 active layers,
// and for 9-16 layers every vector that is 1 everywhere but in one or two positions.
func c19TLVectors(c *mc.Ctx) {
	masks := []struct {
		count int
		mask  uint32
	}{{1, 0x1}, {1, 0x3}, {2, 0x13}, {1, 0xF}, {2, 0x1F}, {3, 0x333}, {4, 0x1337}, {2, 0xFF}, {4, 0x3333}, {3, 0x7F7}, {3, 0xFFF}, {4, 0x7FFF}, {4, 0xFFFF}}
	m := mc.From(c, masks)
	layers := 0
	for i := 0; i < 16; i++ {
		layers += int(m.mask >> uint(i) & 1)
	}
	tl := make([]int, layers)
	if layers <= 8 {
		for i := range tl {
			tl[i] = 1 + c.Pick(4)
		}
	} else {
		for i := range tl {
			tl[i] = 1
		}
		a, b := c.Pick(layers), c.Pick(layers)
		tl[a] = 1 + c.Pick(4)
		if b != a {
			tl[b] = 1 + c.Pick(4)
		}
	}
	ratePat := c.Pick(2)
	hasRes := c.Bool()
	v, w := c19BuildTL(m.count, m.count-1, m.mask, func(k int) int { return tl[k] }, ratePat, hasRes)
	c19RoundTrip(c, v, w, m.mask)
	c.Outcome(fmt.Sprintf("layers=%d res=%v", layers, hasRes))
}

func c19Encode(c *mc.Ctx) {
	count := 1 + c.Pick(4)
	rid := c.Pick(count)
	hi := 0
	if count > 2 {
		hi = c.Pick(1 << uint(4*(count-2))) // slots of streams 2,3
	}
	lo := c.Pick(1 << uint(4*minI(count, 2)))
	mask := uint32(hi)<<8 | uint32(lo)
	tlPat := c.Pick(4)
	ratePat := c.Pick(4)
	hasRes := c.Bool()
	if mask == 0 {
		hasRes = false // with no active layer there is no resolution record to carry the flag
	}
	v, w := c19Build(count, rid, mask, tlPat, ratePat, hasRes)
	c19RoundTrip(c, v, w, mask)
	c.Outcome(fmt.Sprintf("count=%d layers=%d res=%v", count, minI(len(v.ActiveSpatialLayer), 5), hasRes))
}

func c19RoundTrip(c *mc.Ctx, v *rtp.VLA, w *ref.VLAValue, mask uint32) {
	desc := func() string { return fmt.Sprintf("VLA{%s}", v.String()) }
	b, err := v.Marshal()
	c.Ops(1)
	if c.Verbose() {
		c.Notef("%s (slots %#x) -> %s", desc(), mask, hx(b))
	}
	if err != nil {
		c.Failf("valid-rejected", "%s: Marshal: %v", desc(), err)
	}
	if want, ok := w.Encode(); ok && !bytes.Equal(b, want) {
		c.Failf("layout-differs", "%s: Marshal = %s, specification layout %s", desc(), hx(b), hx(want))
	}
	for prior := 0; prior < 2; prior++ {
		var d rtp.VLA
		if prior == 1 {
			if _, err := d.Unmarshal(c19Warm()); err != nil {
				c.Failf("valid-rejected", "warm-up decode of %s failed: %v", hx(c19Warm()), err)
			}
		}
		n, err := d.Unmarshal(b)
		c.Ops(1)
		if err != nil {
			c.Failf("own-output-rejected", "%s: Unmarshal(%s) into a %s receiver: %v", desc(), hx(b), []string{"fresh", "used"}[prior], err)
		}
		if n != len(b) {
			c.Failf("consumed-length", "%s: Unmarshal(%s) consumed %d of %d bytes", desc(), hx(b), n, len(b))
		}
		if diff := c19Equal(&d, v); diff != "" {
			c.Failf("roundtrip-differs", "%s: Unmarshal(%s) into a %s receiver: %s", desc(), hx(b), []string{"fresh", "used"}[prior], diff)
		}
	}
	if len(v.ActiveSpatialLayer) >= 2 {
		c.NonTrivial()
	}
}

func c19Invalid(c *mc.Ctx) {
	kind := c.Pick(10)
	v, _ := c19Build(3, 1, 0x137, 2, 0, c.Bool())
	what := ""
	switch kind {
	case 0:
		v.RTPStreamCount, what = mc.From(c, []int{-1, 0, 5, 255}), "stream count"
	case 1:
		v.RTPStreamID, what = mc.From(c, []int{-1, 3, 4, 255}), "RID"
	case 2:
		v.ActiveSpatialLayer[c.Pick(len(v.ActiveSpatialLayer))].SpatialID, what = mc.From(c, []int{-1, 4, 255}), "spatial id"
	case 3:
		v.ActiveSpatialLayer[c.Pick(len(v.ActiveSpatialLayer))].RTPStreamID, what = mc.From(c, []int{-1, 3, 4}), "layer stream id"
	case 4:
		// any two positions hold the same (stream, spatial id): neighbours and not
		i := c.Pick(len(v.ActiveSpatialLayer))
		j := c.Pick(len(v.ActiveSpatialLayer))
		if i == j {
			j = (i + 1) % len(v.ActiveSpatialLayer)
		}
		v.ActiveSpatialLayer[j].RTPStreamID, v.ActiveSpatialLayer[j].SpatialID = v.ActiveSpatialLayer[i].RTPStreamID, v.ActiveSpatialLayer[i].SpatialID
		what = fmt.Sprintf("layer %d repeats layer %d", j, i)
	case 5:
		v.ActiveSpatialLayer[c.Pick(len(v.ActiveSpatialLayer))].TargetBitrates, what = nil, "zero temporal layers"
	case 6:
		n := mc.From(c, []int{5, 6, 255, 256, 257, 258, 260, 261, 513, 65537})
		v.ActiveSpatialLayer[c.Pick(len(v.ActiveSpatialLayer))].TargetBitrates, what = make([]int, n), fmt.Sprintf("%d temporal layers", n)
	case 7:
		v.RTPStreamCount, v.RTPStreamID, what = 2, 1, "layer stream id not below the count"
	case 8:
		what = "valid (control)"
	case 9: // no active layer: nothing but the count and the stream id to be wrong
		v.ActiveSpatialLayer, v.HasResolutionAndFramerate = nil, false
		if c.Bool() {
			v.RTPStreamCount, v.RTPStreamID, what = mc.From(c, []int{-1, 0, 5}), 0, "stream count of an empty allocation"
		} else {
			v.RTPStreamCount = 1 + c.Pick(4)
			v.RTPStreamID, what = mc.From(c, []int{-1, v.RTPStreamCount, 4}), "RID of an empty allocation"
		}
	}
	b, err := v.Marshal()
	c.Ops(1)
	if c.Verbose() {
		c.Notef("%s: VLA{%s} -> %s, %v", what, v.String(), hx(b), err)
	}
	if kind == 8 {
		if err != nil {
			c.Failf("valid-rejected", "control VLA{%s}: %v", v.String(), err)
		}
		c.Outcome("accepted")
		return
	}
	if err == nil {
		c.Failf("invalid-accepted", "%s: VLA{%s} was marshalled to %s", what, v.String(), hx(b))
	}
	c.NonTrivial()
	c.Outcome("rejected")
}

// c19Decode feeds one string to a fresh and a used receiver.
func c19Decode(c *mc.Ctx, in []byte) bool {
	var f rtp.VLA
	n, err := f.Unmarshal(in)
	if n < 0 || n > len(in) {
		c.Failf("consumed-more-than-given", "Unmarshal(%s) reports %d bytes consumed (err %v)", hx(in), n, err)
	}
	var u rtp.VLA
	_, _ = u.Unmarshal(c19Warm())
	n2, err2 := u.Unmarshal(in)
	c.Ops(2)
	if n2 < 0 || n2 > len(in) {
		c.Failf("consumed-more-than-given", "Unmarshal(%s) into a used receiver reports %d bytes consumed", hx(in), n2)
	}
	if (err == nil) != (err2 == nil) || n != n2 {
		c.Failf("reuse-differs", "Unmarshal(%s): fresh receiver (%d, %v), used receiver (%d, %v)", hx(in), n, err, n2, err2)
	}
	if err == nil {
		if diff := c19Equal(&f, &u); diff != "" {
			c.Failf("reuse-differs", "Unmarshal(%s): used receiver differs from a fresh one: %s", hx(in), diff)
		}
	}
	return err == nil
}

func c19Short(c *mc.Ctx) {
	b0 := c.Pick(258)
	if b0 < 2 {
		var in []byte
		if b0 == 1 {
			in = []byte{}
		}
		c19Decode(c, in)
		c.Outcome("empty")
		return
	}
	first := byte(b0 - 2)
	acc := 0
	n := 0
	try := func(in []byte) {
		n++
		if c19Decode(c, in) {
			acc++
		}
	}
	try([]byte{first})
	for b1 := 0; b1 < 256; b1++ {
		try([]byte{first, byte(b1)})
		if c.Thorough() {
			for b2 := 0; b2 < 256; b2++ {
				try([]byte{first, byte(b1), byte(b2)})
			}
		}
	}
	if !c.Thorough() {
		for _, s1 := range c09Sym40 {
			for _, s2 := range c09Sym40 {
				try([]byte{first, s1, s2})
				try([]byte{first, s1, s2, 0x00, 0x80})
			}
		}
	}
	c.Cases(n - 1)
	if c.Verbose() {
		c.Notef("strings starting with %02x: %d tried, %d accepted", first, n, acc)
	}
	if acc > 0 {
		c.NonTrivial()
	}
	c.Outcome(fmt.Sprintf("accepted>0=%v", acc > 0))
}

func c19Mutations(c *mc.Ctx) {
	count := 1 + c.Pick(4)
	masks := []uint32{0x1, 0x3, 0xF, 0x11, 0x31, 0x137, 0xF0F, 0x1111, 0x8421, 0xFFFF, 0x0100, 0x1010, 0x7}
	mask := mc.From(c, masks) & (1<<uint(4*count) - 1)
	if mask == 0 {
		return
	}
	tlPat := c.Pick(3)
	ratePat := c.Pick(2)
	hasRes := c.Bool()
	v, _ := c19Build(count, count-1, mask, tlPat, ratePat, hasRes)
	img, err := v.Marshal()
	if err != nil {
		c.Failf("valid-rejected", "VLA{%s}: %v", v.String(), err)
	}
	n, acc := 0, 0
	try := func(in []byte) {
		n++
		if c19Decode(c, in) {
			acc++
		}
	}
	for cut := 0; cut <= len(img); cut++ {
		try(clone(img[:cut]))
	}
	for i := range img {
		for k := 0; k < len(c03MutVals)+2; k++ {
			var val byte
			switch {
			case k < len(c03MutVals):
				val = c03MutVals[k]
			case k == len(c03MutVals):
				val = img[i] ^ 0x01
			default:
				val = img[i] ^ 0x80
			}
			if val == img[i] {
				continue
			}
			m := clone(img)
			m[i] = val
			try(m)
		}
	}
	c.Cases(n - 1)
	if c.Verbose() {
		c.Notef("VLA{%s} = %s: %d truncations and mutants, %d accepted", v.String(), hx(img), n, acc)
	}
	if acc > 0 {
		c.NonTrivial()
	}
	c.Outcome(fmt.Sprintf("count=%d", count))
}

var c19WarmCache []byte

// c19Warm is a valid encoding (3 streams, 6 layers, resolutions) used to dirty a receiver.
func c19Warm() []byte {
	if c19WarmCache == nil {
		_, w := c19Build(3, 2, 0x137, 2, 1, true)
		c19WarmCache, _ = w.Encode()
	}
	return c19WarmCache
}
