package props

import (
	"bytes"
	"fmt"
	"strings"

	"github.com/pion/rtp"

	"verif/mc"
)

func init() {
	register(mc.Property{
		ID:   "C05",
		Rule: "one case = one sequence of SetExtension/DelExtension calls from one starting state; the full oracle (ordered-map model, error-leaves-unchanged, Marshal does not panic, wire survival) runs after every step; non-trivial = at least one call returned nil",
		Assumptions: []string{
			"operation alphabet: Set(id,len) with id in {0,1,2,14,15,16,255} x len in {0,1,4,16,17,255,256,300} (value bytes keyed by the operation index) and Del(id) with id in {0,1,2,14,15,255}: 62 operations; all sequences up to depth 3 (quick) / 4 (thorough)",
			"starting states: fresh header; preset one-byte; preset two-byte; preset legacy (no element yet) and decoded legacy with one word, each for the profiles {0x1234, 0x1001, 0x100F, 0xBEDF, 0x0000}; decoded from wire: one-byte with 2 elements, two-byte with 2 elements; reused receivers: decoded a block with extensions then a packet without / a two-byte block then a one-byte block",
			"long sequences: all sequences of 6 (quick) / 7 (thorough) calls over the 10-call alphabet {Set(1,1B), Set(2,16B), Set(3,4B), Set(14,2B), Del(1), Del(2), Del(3), Del(14), Set(2, the same slice as the previous Set), Set(1, other content of the previous length)} from the starting states (legacy profiles 0x1234 and 0x1001 only), and one fill-up run that sets all 14 one-byte ids / 40 two-byte ids, sets each of them again with another value, and deletes every second one",
			"the model follows the library's return values (it does not decide which Set calls must be accepted); wrongly accepted values are caught by the wire-survival clause",
		},
		Scenarios: []mc.Scenario{
			{Name: "set-del-sequences", Tiers: "qt", ShardDepth: 2, Run: c05Run},
			{Name: "long-sequences-small-alphabet", Tiers: "qt", ShardDepth: 3, Run: c05Long},
		},
	})
}

var (
	c05SetIDs  = []uint8{0, 1, 2, 14, 15, 16, 255}
	c05SetLens = []int{0, 1, 4, 16, 17, 255, 256, 300}
	c05DelIDs  = []uint8{0, 1, 2, 14, 15, 255}
	c05AllIDs  = []uint8{0, 1, 2, 3, 8, 14, 15, 16, 255}
)

// legacy profiles: an arbitrary one, the neighbours of the two RFC 8285 profiles (0x1001-0x100F
// are the two-byte profile with application bits, which this library treats as legacy), extremes
var c05LegacyProfiles = []uint16{0x1234, 0x1001, 0x100F, 0xBEDF, 0x0000}

type c05Model struct {
	ids  []uint8
	vals map[uint8][]byte
}

func (m *c05Model) set(id uint8, v []byte) {
	if _, ok := m.vals[id]; !ok {
		m.ids = append(m.ids, id)
	}
	m.vals[id] = v
}

func (m *c05Model) del(id uint8) {
	delete(m.vals, id)
	for i, x := range m.ids {
		if x == id {
			m.ids = append(m.ids[:i:i], m.ids[i+1:]...)
			return
		}
	}
}

type c05Snap struct {
	ext     bool
	profile uint16
	ids     []uint8
	vals    [][]byte
}

func c05Snapshot(h *rtp.Header) c05Snap {
	s := c05Snap{ext: h.Extension, profile: h.ExtensionProfile, ids: h.GetExtensionIDs()}
	for _, id := range c05AllIDs {
		s.vals = append(s.vals, clone(h.GetExtension(id)))
	}
	return s
}

func (a c05Snap) equal(b c05Snap) bool {
	return a.ext == b.ext && a.profile == b.profile && bytes.Equal(a.ids, b.ids) && equalAll(a.vals, b.vals)
}

func c05Start(c *mc.Ctx, h *rtp.Header, m *c05Model, profiles []uint16) string {
	st := c.Pick(9)
	dec := func(img []byte) {
		if _, err := h.Unmarshal(img); err != nil {
			c.Failf("start-state", "decoding the start image %s: %v", hx(img), err)
		}
	}
	switch st {
	case 0:
		return "fresh"
	case 1:
		h.Extension, h.ExtensionProfile = true, 0xBEDE
		return "preset-one-byte"
	case 2:
		h.Extension, h.ExtensionProfile = true, 0x1000
		return "preset-two-byte"
	case 3:
		prof := mc.From(c, profiles)
		h.Extension, h.ExtensionProfile = true, prof
		return fmt.Sprintf("preset-legacy-%#04x", prof)
	case 4:
		dec([]byte{0x90, 0x60, 0, 1, 0, 0, 0, 2, 0, 0, 0, 3, 0xBE, 0xDE, 0, 2, 0x11, 0xA1, 0xA2, 0x20, 0xB1, 0, 0, 0})
		m.set(1, []byte{0xA1, 0xA2})
		m.set(2, []byte{0xB1})
		return "decoded-one-byte[1:a1a2 2:b1]"
	case 5:
		dec([]byte{0x90, 0x60, 0, 1, 0, 0, 0, 2, 0, 0, 0, 3, 0x10, 0x00, 0, 2, 0x01, 0x02, 0xA1, 0xA2, 0xFF, 0x01, 0xB1, 0})
		m.set(1, []byte{0xA1, 0xA2})
		m.set(255, []byte{0xB1})
		return "decoded-two-byte[1:a1a2 255:b1]"
	case 6:
		prof := mc.From(c, profiles)
		dec([]byte{0x90, 0x60, 0, 1, 0, 0, 0, 2, 0, 0, 0, 3, byte(prof >> 8), byte(prof), 0, 1, 0xC1, 0xC2, 0xC3, 0xC4})
		m.set(0, []byte{0xC1, 0xC2, 0xC3, 0xC4})
		return fmt.Sprintf("decoded-legacy-%#04x[0:c1c2c3c4]", prof)
	case 7:
		// a receiver that decoded a packet with extensions before one without
		dec([]byte{0x90, 0x60, 0, 1, 0, 0, 0, 2, 0, 0, 0, 3, 0xBE, 0xDE, 0, 2, 0x11, 0xA1, 0xA2, 0x20, 0xB1, 0, 0, 0})
		dec([]byte{0x80, 0x60, 0, 1, 0, 0, 0, 2, 0, 0, 0, 3})
		return "reused:decoded-one-byte-then-no-extension"
	default:
		// a receiver that decoded a two-byte block before a one-byte block with one element
		dec([]byte{0x90, 0x60, 0, 1, 0, 0, 0, 2, 0, 0, 0, 3, 0x10, 0x00, 0, 2, 0x01, 0x02, 0xA1, 0xA2, 0xFF, 0x01, 0xB1, 0})
		dec([]byte{0x90, 0x60, 0, 1, 0, 0, 0, 2, 0, 0, 0, 3, 0xBE, 0xDE, 0, 1, 0x70, 0x55, 0, 0})
		m.set(7, []byte{0x55})
		return "reused:decoded-two-byte-then-one-byte[7:55]"
	}
}

func c05Run(c *mc.Ctx) {
	depth := 3
	if c.Thorough() {
		depth = 4
	}
	h := &rtp.Header{Version: 2, PayloadType: 96, SequenceNumber: 1, Timestamp: 2, SSRC: 3}
	m := &c05Model{vals: map[uint8][]byte{}}
	var trace []string
	trace = append(trace, c05Start(c, h, m, c05LegacyProfiles))
	hist := func() string { return strings.Join(trace, "; ") }
	accepted := 0
	c05Oracle(c, h, m, hist)
	nOps := len(c05SetIDs)*len(c05SetLens) + len(c05DelIDs)
	for step := 0; step < depth; step++ {
		op := c.Pick(nOps + 1)
		if op == nOps {
			break // shorter sequence
		}
		before := c05Snapshot(h)
		var err error
		if op < len(c05SetIDs)*len(c05SetLens) {
			id := c05SetIDs[op/len(c05SetLens)]
			l := c05SetLens[op%len(c05SetLens)]
			val := fill(l, byte(step*37)+id)
			err = h.SetExtension(id, val)
			trace = append(trace, fmt.Sprintf("Set(%d,%dB)=%v", id, l, err != nil))
			if err == nil {
				m.set(id, clone(val))
			}
		} else {
			id := c05DelIDs[op-len(c05SetIDs)*len(c05SetLens)]
			err = h.DelExtension(id)
			trace = append(trace, fmt.Sprintf("Del(%d)=%v", id, err != nil))
			if err == nil {
				m.del(id)
			}
		}
		c.Ops(1)
		if err != nil {
			if after := c05Snapshot(h); !before.equal(after) {
				c.Failf("error-changed-header", "%s: the last call returned an error (%v) but changed the header: before %+v, after %+v", hist(), err, before, after)
			}
		} else {
			accepted++
		}
		c05Oracle(c, h, m, hist)
	}
	if c.Verbose() {
		c.Notef("%s", hist())
	}
	if accepted > 0 {
		c.NonTrivial()
	}
	c.Outcome(fmt.Sprintf("%s accepted=%d ids=%d", trace[0][:5], accepted, len(m.ids)))
}

func c05Oracle(c *mc.Ctx, h *rtp.Header, m *c05Model, hist func() string) {
	ids := h.GetExtensionIDs()
	if !bytes.Equal(ids, m.ids) {
		c.Failf("ids-differ", "%s: GetExtensionIDs() = %v, calls that returned nil give %v", hist(), ids, m.ids)
	}
	for _, id := range c05AllIDs {
		got := h.GetExtension(id)
		want, ok := m.vals[id]
		if !ok {
			if got != nil {
				c.Failf("absent-id-present", "%s: GetExtension(%d) = %s for an id that was never set / was deleted", hist(), id, hx(got))
			}
			continue
		}
		if got == nil || !bytes.Equal(got, want) {
			c.Failf("value-differs", "%s: GetExtension(%d) = %s, want %s", hist(), id, hx(got), hx(want))
		}
	}
	c.Ops(2 + len(c05AllIDs))
	// Marshal must not panic (a panic is caught by the explorer and reported as such)
	size := h.MarshalSize()
	b, err := h.Marshal()
	c.Ops(2)
	if err != nil {
		legacyOdd := false
		if h.Extension && h.ExtensionProfile != 0xBEDE && h.ExtensionProfile != 0x1000 {
			for _, v := range m.vals {
				if len(v)%4 != 0 {
					legacyOdd = true
				}
			}
		}
		if !legacyOdd {
			c.Failf("marshal-refused", "%s: Marshal failed (%v) although no legacy value of odd size is present (profile %#x)", hist(), err, h.ExtensionProfile)
		}
		return
	}
	if len(b) != size {
		c.Failf("marshal-size", "%s: Marshal produced %d bytes, MarshalSize %d", hist(), len(b), size)
	}
	var d rtp.Header
	if _, err := d.Unmarshal(b); err != nil {
		c.Failf("wire-unparsable", "%s: Unmarshal of the marshalled header %s: %v", hist(), hx(b), err)
	}
	c.Ops(1)
	dids := d.GetExtensionIDs()
	legacyEmpty := h.Extension && h.ExtensionProfile != 0xBEDE && h.ExtensionProfile != 0x1000 && len(m.ids) == 0
	if !bytes.Equal(dids, m.ids) && !(legacyEmpty && len(dids) == 1 && dids[0] == 0 && len(d.GetExtension(0)) == 0) {
		c.Failf("wire-ids-differ", "%s: after Marshal/Unmarshal (%s) ids %v, want %v", hist(), hx(b), dids, m.ids)
	}
	for _, id := range m.ids {
		got := d.GetExtension(id)
		if got == nil || !bytes.Equal(got, m.vals[id]) {
			c.Failf("wire-value-differs", "%s: value of id %d accepted by SetExtension (%s) comes back as %s after Marshal/Unmarshal (%s)", hist(), id, hx(m.vals[id]), hx(got), hx(b))
		}
	}
}

type c05LongOp struct {
	set bool
	id  uint8
	n   int
}

var c05LongOps = []c05LongOp{{true, 1, 1}, {true, 2, 16}, {true, 3, 4}, {true, 14, 2}, {false, 1, 0}, {false, 2, 0}, {false, 3, 0}, {false, 14, 0}, {true, 2, -1}, {true, 1, -2}}

func c05Long(c *mc.Ctx) {
	h := &rtp.Header{Version: 2, PayloadType: 96, SequenceNumber: 1, Timestamp: 2, SSRC: 3}
	m := &c05Model{vals: map[uint8][]byte{}}
	var trace []string
	trace = append(trace, c05Start(c, h, m, c05LegacyProfiles[:2]))
	hist := func() string { return strings.Join(trace, "; ") }
	if c.Pick(2) == 0 {
		// fill-up run: many elements, then delete every second one
		two := h.Extension && h.ExtensionProfile == 0x1000
		n := 14
		if two {
			n = 40
		}
		if h.Extension && !two && h.ExtensionProfile != 0xBEDE {
			return
		}
		for i := 1; i <= n; i++ {
			v := fill(1+i%16, byte(i))
			if err := h.SetExtension(uint8(i), v); err == nil {
				m.set(uint8(i), clone(v))
			}
			trace = append(trace, fmt.Sprintf("Set(%d,%dB)", i, len(v)))
		}
		c05Oracle(c, h, m, hist)
		// every id is set again, last first, with another value: an update, not an insertion
		for i := n; i >= 1; i-- {
			v := fill(1+(i+5)%16, byte(i)+0x80)
			if err := h.SetExtension(uint8(i), v); err == nil {
				m.set(uint8(i), clone(v))
			}
			trace = append(trace, fmt.Sprintf("Set(%d,%dB)", i, len(v)))
			if i%8 == 0 || i == 1 {
				c05Oracle(c, h, m, hist)
			}
		}
		for i := 2; i <= n; i += 2 {
			if err := h.DelExtension(uint8(i)); err == nil {
				m.del(uint8(i))
			}
			trace = append(trace, fmt.Sprintf("Del(%d)", i))
			c05Oracle(c, h, m, hist)
		}
		c.NonTrivial()
		c.Outcome("fill-up")
		return
	}
	depth := 6
	if c.Thorough() {
		depth = 7
	}
	accepted := 0
	var lastVal []byte
	for step := 0; step < depth; step++ {
		op := mc.From(c, c05LongOps)
		before := c05Snapshot(h)
		var err error
		if op.set {
			var val []byte
			switch {
			case op.n == -1 && lastVal != nil:
				val = lastVal // the very slice handed to the previous Set (callers do reuse value slices)
			case op.n == -2 && lastVal != nil:
				val = fill(len(lastVal), byte(step*37)+0x80) // same length as the previous value, other content
			case op.n < 0:
				val = fill(4, byte(step))
			default:
				val = fill(op.n, byte(step*37)+op.id)
			}
			lastVal = val
			err = h.SetExtension(op.id, val)
			trace = append(trace, fmt.Sprintf("Set(%d,%dB%s)=%v", op.id, len(val), map[bool]string{true: " shared slice", false: ""}[op.n == -1], err != nil))
			if err == nil {
				m.set(op.id, clone(val))
			}
		} else {
			err = h.DelExtension(op.id)
			trace = append(trace, fmt.Sprintf("Del(%d)=%v", op.id, err != nil))
			if err == nil {
				m.del(op.id)
			}
		}
		c.Ops(1)
		if err != nil {
			if after := c05Snapshot(h); !before.equal(after) {
				c.Failf("error-changed-header", "%s: the last call returned an error (%v) but changed the header", hist(), err)
			}
		} else {
			accepted++
		}
		if step >= 3 {
			c05Oracle(c, h, m, hist) // shorter prefixes are covered by the depth-3 scenario
		}
	}
	if c.Verbose() {
		c.Notef("%s", hist())
	}
	if accepted > 0 {
		c.NonTrivial()
	}
	c.Outcome(fmt.Sprintf("long accepted=%d", accepted))
}
