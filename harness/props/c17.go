package props

import (
	"bytes"
	"encoding/binary"
	"fmt"

	"github.com/pion/rtp"

	"verif/mc"
)

func init() {
	register(mc.Property{
		ID:   "C17",
		Rule: "one case = one value of the codec's domain (encode, layout comparison, decode into fresh and used receivers) or one decoder input (bytes, length 0..size+2, trailing bytes, prior receiver state); complete domains are swept inside an execution and counted as cases; non-trivial = the codec accepted the value/input",
		Assumptions: []string{
			"AbsCaptureTime 64-bit fields are drawn from 8-byte strings over {00,01,7F,80,FF} (5^8 each; thorough: over {00,01,7F,80,FF,55,AA}, 7^8 each), one field over the full grid at a time against 12 values of the other",
			"AbsCaptureTime decode sequences: every sequence of 2-4 inputs from 8 (8 / 16 / 18 / 15 / 7 bytes and nil, equal and different timestamps and offsets) into one receiver; the caller keeps a copy of the value after each decode and every kept value is re-read after every later decode",
			"bit layouts are taken from RFC 6464, the transport-wide-cc draft, and the WebRTC playout-delay / abs-send-time / abs-capture-time specifications",
		},
		Scenarios: []mc.Scenario{
			{Name: "audiolevel-all", Tiers: "qt", ShardDepth: 1, Run: c17AudioLevel},
			{Name: "transportcc-all", Tiers: "qt", ShardDepth: 1, Run: c17TransportCC},
			{Name: "playoutdelay-all-2^24", Tiers: "qt", ShardDepth: 1, Run: c17PlayoutDelay},
			{Name: "playoutdelay-out-of-range", Tiers: "qt", ShardDepth: 1, Run: c17PlayoutDelayInvalid},
			{Name: "abssendtime-all-2^24", Tiers: "qt", ShardDepth: 1, Run: c17AbsSendTime},
			{Name: "abscapturetime-grid", Tiers: "qt", ShardDepth: 2, Run: c17AbsCaptureTime},
			{Name: "short-and-long-inputs", Tiers: "qt", ShardDepth: 2, Run: c17Lengths},
			{Name: "abscapturetime-decode-sequences", Tiers: "qt", ShardDepth: 2, Run: c17CaptureSequences},
		},
	})
}

var c17Tails = [][]byte{nil, {0x00}, {0xFF}, {0x00, 0xFF}, {0xFF, 0x00}}

func c17AudioLevel(c *mc.Ctx) {
	level := c.Pick(256)
	voice := c.Bool()
	prior := c.Pick(3)
	e := rtp.AudioLevelExtension{Level: uint8(level), Voice: voice}
	b, err := e.Marshal()
	c.Ops(1)
	c.Notef("AudioLevel{%d,%v}.Marshal() = %s, %v", level, voice, hx(b), err)
	if level > 127 {
		c.Check(err != nil, "audiolevel-range", "level %d: Marshal returned %s, %v", level, hx(b), err)
		c.Outcome("rejected")
	} else {
		want := byte(level)
		if voice {
			want |= 0x80
		}
		c.Check(err == nil && len(b) == 1 && b[0] == want, "audiolevel-layout", "level %d voice %v: got %s, %v want %02x", level, voice, hx(b), err, want)
		// the encoding belongs to the caller: rewriting it must not show in the next Marshal
		b[0] ^= 0xFF
		b2, err2 := e.Marshal()
		c.Check(err2 == nil && len(b2) == 1 && b2[0] == want, "audiolevel-layout", "level %d voice %v: after the caller rewrote the first result, Marshal gives %s, %v want %02x", level, voice, hx(b2), err2, want)
		b[0] ^= 0xFF
		c.NonTrivial()
		c.Outcome("encoded")
	}
	// decoder: the byte (level | voice<<7) over all 256 values, every tail, every prior state
	raw := byte(level)
	if voice {
		raw ^= 0x80
	}
	for _, tail := range c17Tails {
		in := append([]byte{raw}, tail...)
		var d rtp.AudioLevelExtension
		switch prior {
		case 1:
			d = rtp.AudioLevelExtension{Level: 127, Voice: true}
		case 2:
			_ = d.Unmarshal([]byte{^raw})
		}
		err := d.Unmarshal(in)
		c.Ops(1)
		c.Check(err == nil && d.Level == raw&0x7F && d.Voice == (raw&0x80 != 0), "audiolevel-decode", "Unmarshal(%s) prior=%d: %+v, %v", hx(in), prior, d, err)
	}
}

func c17TransportCC(c *mc.Ctx) {
	hi := c.Pick(256)
	prior := c.Pick(2)
	for lo := 0; lo < 256; lo++ {
		v := uint16(hi<<8 | lo)
		b, err := rtp.TransportCCExtension{TransportSequence: v}.Marshal()
		if err != nil || len(b) != 2 || b[0] != byte(hi) || b[1] != byte(lo) {
			c.Failf("transportcc-layout", "TransportSequence %d: got %s, %v", v, hx(b), err)
		}
		b[0], b[1] = ^b[0], ^b[1] // the caller rewrites its copy
		if b2, err := (rtp.TransportCCExtension{TransportSequence: v}).Marshal(); err != nil || len(b2) != 2 || b2[0] != byte(hi) || b2[1] != byte(lo) {
			c.Failf("transportcc-layout", "TransportSequence %d: after the caller rewrote the first result, Marshal gives %s, %v", v, hx(b2), err)
		}
		b[0], b[1] = ^b[0], ^b[1]
		for _, tail := range c17Tails {
			in := append(clone(b), tail...)
			var d rtp.TransportCCExtension
			if prior == 1 {
				d.TransportSequence = ^v
			}
			if err := d.Unmarshal(in); err != nil || d.TransportSequence != v {
				c.Failf("transportcc-decode", "Unmarshal(%s): %+v, %v", hx(in), d, err)
			}
		}
		c.Ops(1 + len(c17Tails))
	}
	c.Cases(255)
	c.Notef("TransportCC values %d..%d, prior=%d", hi<<8, hi<<8|255, prior)
	c.NonTrivial()
	c.Outcome("ok")
}

func c17PlayoutDelay(c *mc.Ctx) {
	min := c.Pick(4096)
	c.Notef("PlayoutDelay min=%d, max=0..4095", min)
	var d rtp.PlayoutDelayExtension
	for max := 0; max < 4096; max++ {
		b, err := rtp.PlayoutDelayExtension{MinDelay: uint16(min), MaxDelay: uint16(max)}.Marshal()
		w0, w1, w2 := byte(min>>4), byte(min<<4)|byte(max>>8), byte(max)
		if err != nil || len(b) != 3 || b[0] != w0 || b[1] != w1 || b[2] != w2 {
			c.Failf("playoutdelay-layout", "min %d max %d: got %s, %v want %02x%02x%02x", min, max, hx(b), err, w0, w1, w2)
		}
		if max&0x3F == 0x15 {
			b[0], b[1], b[2] = ^b[0], ^b[1], ^b[2] // the caller rewrites its copy
			if b2, err := (rtp.PlayoutDelayExtension{MinDelay: uint16(min), MaxDelay: uint16(max)}).Marshal(); err != nil || len(b2) != 3 || b2[0] != w0 || b2[1] != w1 || b2[2] != w2 {
				c.Failf("playoutdelay-layout", "min %d max %d: after the caller rewrote the first result, Marshal gives %s, %v", min, max, hx(b2), err)
			}
			b[0], b[1], b[2] = ^b[0], ^b[1], ^b[2]
		}
		// decode into the receiver that still holds the previous pair (used receiver)
		if err := d.Unmarshal(b); err != nil || int(d.MinDelay) != min || int(d.MaxDelay) != max {
			c.Failf("playoutdelay-decode", "Unmarshal(%s) into a used receiver: %+v, %v", hx(b), d, err)
		}
		if max&0xFF == 0x5A {
			in := append(clone(b), 0xFF, 0x00)
			var f rtp.PlayoutDelayExtension
			if err := f.Unmarshal(in); err != nil || int(f.MinDelay) != min || int(f.MaxDelay) != max {
				c.Failf("playoutdelay-decode", "Unmarshal(%s): %+v, %v", hx(in), f, err)
			}
		}
	}
	c.Ops(2 * 4096)
	c.Cases(4095)
	c.NonTrivial()
	c.Outcome("ok")
}

func c17PlayoutDelayInvalid(c *mc.Ctx) {
	vals := []int{0, 1, 4095, 4096, 4097, 8191, 8192, 32768, 65535}
	min := mc.From(c, vals)
	max := mc.From(c, vals)
	b, err := rtp.PlayoutDelayExtension{MinDelay: uint16(min), MaxDelay: uint16(max)}.Marshal()
	c.Ops(1)
	c.Notef("PlayoutDelay{%d,%d}.Marshal() = %s, %v", min, max, hx(b), err)
	if min > 4095 || max > 4095 {
		c.Check(err != nil, "playoutdelay-range", "min %d max %d accepted: %s", min, max, hx(b))
		c.Outcome("rejected")
		c.NonTrivial()
	} else {
		c.Check(err == nil && len(b) == 3, "playoutdelay-layout", "min %d max %d: %s, %v", min, max, hx(b), err)
		c.Outcome("encoded")
	}
}

func c17AbsSendTime(c *mc.Ctx) {
	hi := c.Pick(256)
	upper := mc.From(c, []uint64{0, 1 << 24, 0xFF << 24, 0xFFFFFFFFFF000000, 1 << 63})
	c.Notef("AbsSendTime timestamps %#x|%02x0000..%02xffff", upper, hi, hi)
	var d rtp.AbsSendTimeExtension
	d.Timestamp = ^uint64(0)
	for lo := 0; lo < 65536; lo++ {
		v := uint64(hi)<<16 | uint64(lo)
		b, err := rtp.AbsSendTimeExtension{Timestamp: upper | v}.Marshal()
		if err != nil || len(b) != 3 || b[0] != byte(hi) || b[1] != byte(lo>>8) || b[2] != byte(lo) {
			c.Failf("abssendtime-layout", "timestamp %#x: got %s, %v", upper|v, hx(b), err)
		}
		if lo&0x3F == 0x2A {
			b[0], b[1], b[2] = ^b[0], ^b[1], ^b[2] // the caller rewrites its copy
			if b2, err := (rtp.AbsSendTimeExtension{Timestamp: upper | v}).Marshal(); err != nil || len(b2) != 3 || b2[0] != byte(hi) || b2[1] != byte(lo>>8) || b2[2] != byte(lo) {
				c.Failf("abssendtime-layout", "timestamp %#x: after the caller rewrote the first result, Marshal gives %s, %v", upper|v, hx(b2), err)
			}
			b[0], b[1], b[2] = ^b[0], ^b[1], ^b[2]
		}
		if upper == 0 || lo&0xFF == 0x33 {
			if err := d.Unmarshal(b); err != nil || d.Timestamp != v {
				c.Failf("abssendtime-decode", "Unmarshal(%s) into a used receiver: %+v, %v", hx(b), d, err)
			}
		}
	}
	c.Ops(65536 * 2)
	c.Cases(65535)
	c.NonTrivial()
	c.Outcome("ok")
}

var c17Sym = []byte{0x00, 0x01, 0x7F, 0x80, 0xFF}
var c17SymT = []byte{0x00, 0x01, 0x7F, 0x80, 0xFF, 0x55, 0xAA} // thorough

func c17Word(idx int) uint64 { return c17WordOver(idx, c17Sym) }

func c17WordOver(idx int, sym []byte) uint64 {
	var v uint64
	for i := 0; i < 8; i++ {
		v = v<<8 | uint64(sym[idx%len(sym)])
		idx /= len(sym)
	}
	return v
}

var c17Others = []uint64{0, 1, 0xFF, 0x100000000, 0xFFFFFFFF, 0x7FFFFFFFFFFFFFFF, 0x8000000000000000, 0xFFFFFFFFFFFFFFFF, 0x0102030405060708, 0x80000000, 0xFFFFFFFF00000000, 0x00000000FFFFFFFE}

func c17AbsCaptureTime(c *mc.Ctx) {
	which := c.Pick(2) // which field runs over the 5^8 (thorough 7^8) grid
	sym := c17Sym
	if c.Thorough() {
		sym = c17SymT
	}
	base := len(sym)
	inner := base * base * base * base * base
	top := c.Pick(base * base * base)   // three symbols of the grid word; the remaining ones swept inside
	other := c.Pick(len(c17Others) + 1) // value of the other field; last = no offset (only when the timestamp sweeps)
	prior := c.Pick(6)                  // 0 fresh, 1 used without offset, 2 used with offset, 3-5 derived from the current value
	if which == 1 && other == len(c17Others) {
		other = 0
	}
	c.Notef("AbsCaptureTime sweep field=%d block=%d other=%d prior=%d", which, top, other, prior)
	for k := 0; k < inner; k++ {
		w := c17WordOver(top*inner+k, sym)
		var ts uint64
		var off *int64
		if which == 0 {
			ts = w
			if other < len(c17Others) {
				o := int64(c17Others[other])
				off = &o
			}
		} else {
			ts = c17Others[other]
			o := int64(w)
			off = &o
		}
		e := rtp.AbsCaptureTimeExtension{Timestamp: ts, EstimatedCaptureClockOffset: off}
		b, err := e.Marshal()
		want := make([]byte, 8, 16)
		binary.BigEndian.PutUint64(want, ts)
		if off != nil {
			want = want[:16]
			binary.BigEndian.PutUint64(want[8:], uint64(*off))
		}
		if err != nil || !bytes.Equal(b, want) {
			c.Failf("abscapturetime-layout", "ts %#x off %v: got %s, %v want %s", ts, off, hx(b), err, hx(want))
		}
		var d rtp.AbsCaptureTimeExtension
		switch prior {
		case 1:
			_ = d.Unmarshal([]byte{9, 9, 9, 9, 9, 9, 9, 9})
		case 2:
			_ = d.Unmarshal([]byte{9, 9, 9, 9, 9, 9, 9, 9, 7, 7, 7, 7, 7, 7, 7, 7})
		case 3, 4, 5:
			// the receiver last decoded a value that agrees with the new one in one field:
			// 3 same offset / other timestamp, 4 same timestamp / other offset, 5 the same value
			pb := clone(b)
			lo, hi := 0, 8
			if prior == 4 {
				lo, hi = 8, len(pb)
			}
			if prior != 5 {
				for i := lo; i < hi; i++ {
					pb[i] ^= 0xFF
				}
			}
			_ = d.Unmarshal(pb)
		}
		if err := d.Unmarshal(b); err != nil {
			c.Failf("abscapturetime-decode", "Unmarshal(%s): %v", hx(b), err)
		}
		if d.Timestamp != ts {
			c.Failf("abscapturetime-decode", "Unmarshal(%s) prior=%d: timestamp %#x", hx(b), prior, d.Timestamp)
		}
		if (off == nil) != (d.EstimatedCaptureClockOffset == nil) || (off != nil && *off != *d.EstimatedCaptureClockOffset) {
			c.Failf("abscapturetime-decode-offset", "Unmarshal(%s) into receiver state %d (0 fresh, 1 used without offset, 2 used with offset, 3 same offset other timestamp, 4 same timestamp other offset, 5 same value): offset %v, want %v",
				hx(b), prior, fmtOff(d.EstimatedCaptureClockOffset), fmtOff(off))
		}
		// the caller owns the decoded value: adjusting the offset in place (a relay adding its own)
		// must not show in any later decode
		if d.EstimatedCaptureClockOffset != nil && k%2 == 1 {
			*d.EstimatedCaptureClockOffset += 0x0123456789
		}
	}
	c.Ops(inner * 2)
	c.Cases(inner - 1)
	c.NonTrivial()
	c.Outcome("ok")
}

func fmtOff(p *int64) interface{} {
	if p == nil {
		return "nil"
	}
	return *p
}

// c17Lengths: every codec, every input length 0..size+2 (AbsCaptureTime 0..18) and 13 lengths far beyond (2-3 times the size, 23..33, 64, 255, 256, 1000), contents from
// three patterns, every prior receiver state.
func c17Lengths(c *mc.Ctx) {
	codec := c.Pick(5)
	size := []int{1, 2, 3, 3, 8}[codec]
	maxLen := size + 2
	if codec == 4 {
		maxLen = 18
	}
	// every length up to a little beyond the size, then lengths far beyond it ("ignoring
	// trailing bytes" has no upper end): multiples of the size, of 8, and large ones
	far := []int{2*size - 1, 2 * size, 2*size + 1, 3 * size, 23, 24, 25, 32, 33, 64, 255, 256, 1000}
	k := c.Pick(maxLen + 2 + len(far))
	n := k - 1 // -1: nil
	if k >= maxLen+2 {
		n = far[k-maxLen-2]
		if n <= maxLen {
			n = maxLen + 1 + n
		}
	}
	pat := c.Pick(3)
	prior := c.Pick(5) // 0 fresh, 1-2 fixed other content, 3-4 the current input with its first / last byte inverted
	var in []byte
	if n >= 0 {
		in = make([]byte, n)
		for i := range in {
			switch pat {
			case 0:
				in[i] = byte(0x11 * (i + 1))
			case 1:
				in[i] = 0xFF
			case 2:
				in[i] = 0
			}
		}
	}
	orig := clone(in)
	pin := clone(in)
	if len(pin) > 0 {
		if prior == 3 {
			pin[0] ^= 0xFF
		} else {
			pin[len(pin)-1] ^= 0xFF
		}
	}
	c.Notef("codec %d Unmarshal(%s) prior=%d", codec, hx(in), prior)
	ok := n >= size
	var err error
	switch codec {
	case 0:
		var d rtp.AudioLevelExtension
		if prior >= 3 {
			_ = d.Unmarshal(pin)
		} else if prior > 0 {
			d = rtp.AudioLevelExtension{Level: 99, Voice: prior == 2}
		}
		err = d.Unmarshal(in)
		if ok {
			c.Check(err == nil && d.Level == in[0]&0x7F && d.Voice == (in[0]&0x80 != 0), "audiolevel-decode", "Unmarshal(%s): %+v, %v", hx(in), d, err)
		}
	case 1:
		var d rtp.TransportCCExtension
		if prior >= 3 {
			_ = d.Unmarshal(pin)
		} else if prior > 0 {
			d.TransportSequence = 0xABCD
		}
		err = d.Unmarshal(in)
		if ok {
			c.Check(err == nil && d.TransportSequence == binary.BigEndian.Uint16(in), "transportcc-decode", "Unmarshal(%s): %+v, %v", hx(in), d, err)
		}
	case 2:
		var d rtp.PlayoutDelayExtension
		if prior >= 3 {
			_ = d.Unmarshal(pin)
		} else if prior > 0 {
			d = rtp.PlayoutDelayExtension{MinDelay: 4095, MaxDelay: 1}
		}
		err = d.Unmarshal(in)
		if ok {
			min := uint16(in[0])<<4 | uint16(in[1])>>4
			max := uint16(in[1]&0x0F)<<8 | uint16(in[2])
			c.Check(err == nil && d.MinDelay == min && d.MaxDelay == max, "playoutdelay-decode", "Unmarshal(%s): %+v, %v", hx(in), d, err)
		}
	case 3:
		var d rtp.AbsSendTimeExtension
		if prior >= 3 {
			_ = d.Unmarshal(pin)
		} else if prior > 0 {
			d.Timestamp = 0xFFFFFFFFFFFFFFFF
		}
		err = d.Unmarshal(in)
		if ok {
			want := uint64(in[0])<<16 | uint64(in[1])<<8 | uint64(in[2])
			c.Check(err == nil && d.Timestamp == want, "abssendtime-decode", "Unmarshal(%s): %+v, %v", hx(in), d, err)
		}
	case 4:
		var d rtp.AbsCaptureTimeExtension
		switch prior {
		case 1:
			_ = d.Unmarshal([]byte{9, 9, 9, 9, 9, 9, 9, 9})
		case 2:
			_ = d.Unmarshal([]byte{9, 9, 9, 9, 9, 9, 9, 9, 7, 7, 7, 7, 7, 7, 7, 7})
		case 3, 4:
			_ = d.Unmarshal(pin)
		}
		err = d.Unmarshal(in)
		if ok {
			c.Check(err == nil && d.Timestamp == binary.BigEndian.Uint64(in), "abscapturetime-decode", "Unmarshal(%s): %+v, %v", hx(in), d, err)
			if n >= 16 {
				c.Check(d.EstimatedCaptureClockOffset != nil && uint64(*d.EstimatedCaptureClockOffset) == binary.BigEndian.Uint64(in[8:]), "abscapturetime-decode-offset",
					"Unmarshal(%s) prior=%d: offset %v", hx(in), prior, fmtOff(d.EstimatedCaptureClockOffset))
			} else {
				c.Check(d.EstimatedCaptureClockOffset == nil, "abscapturetime-decode-offset",
					"Unmarshal(%s) (%d bytes: timestamp only) into receiver state %d (2 = previously decoded a value with offset): offset %v, want nil", hx(in), n, prior, fmtOff(d.EstimatedCaptureClockOffset))
			}
		}
	}
	c.Ops(1)
	c.Check(bytes.Equal(in, orig), "input-modified", "codec %d: input changed", codec)
	if ok {
		c.NonTrivial()
		c.Outcome("accepted")
	} else {
		c.Check(err != nil, "short-input-accepted", "codec %d accepted %d bytes (needs %d)", codec, n, size)
		c.Outcome("rejected")
	}
}

var c17SeqInputs = [][]byte{
	{1, 2, 3, 4, 5, 6, 7, 8},
	{8, 7, 6, 5, 4, 3, 2, 1, 0xFF, 0xFF, 0xFF, 0xF6, 0, 0, 0, 0},
	{1, 2, 3, 4, 5, 6, 7, 8, 0, 0, 0, 1, 0x40, 0, 0, 0},
	{8, 7, 6, 5, 4, 3, 2, 1, 0, 0, 0, 1, 0x40, 0, 0, 0},
	{9, 9, 9, 9, 9, 9, 9, 9, 0x80, 0, 0, 0, 0, 0, 0, 0, 0xAA, 0xBB},
	{9, 9, 9, 9, 9, 9, 9, 9, 1, 2, 3, 4, 5, 6, 7},
	{1, 2, 3, 4, 5, 6, 7},
	nil,
}

// c17CaptureSequences: every sequence of up to 4 decodes into one AbsCaptureTime receiver; the
// caller keeps a copy of the value after each decode (as one storing the extension per packet
// does), and every kept value must still be what its own input encodes after the later decodes.
func c17CaptureSequences(c *mc.Ctx) {
	depth := 2 + c.Pick(3)
	seq := make([]int, depth)
	for i := range seq {
		seq[i] = c.Pick(len(c17SeqInputs))
	}
	if c.Verbose() {
		c.Notef("AbsCaptureTime decode sequence %v", seq)
	}
	type kept struct {
		v     rtp.AbsCaptureTimeExtension
		in    []byte
		step  int
		hasTS bool
	}
	var keep []kept
	var d rtp.AbsCaptureTimeExtension
	for i, k := range seq {
		in := c17SeqInputs[k]
		err := d.Unmarshal(clone(in))
		c.Ops(1)
		if (err == nil) != (len(in) >= 8) {
			c.Failf("abscapturetime-length", "step %d of %v: Unmarshal of %d bytes returned %v", i, seq, len(in), err)
		}
		if err == nil {
			keep = append(keep, kept{v: d, in: in, step: i})
		}
		for _, kv := range keep {
			wantTS := binary.BigEndian.Uint64(kv.in)
			var wantOff *int64
			if len(kv.in) >= 16 {
				o := int64(binary.BigEndian.Uint64(kv.in[8:]))
				wantOff = &o
			}
			got := kv.v.EstimatedCaptureClockOffset
			if kv.v.Timestamp != wantTS || (got == nil) != (wantOff == nil) || (got != nil && *got != *wantOff) {
				clause := "abscapturetime-decode-offset"
				if kv.step != i {
					clause = "abscapturetime-earlier-value-changed"
				}
				c.Failf(clause, "sequence %v: the value decoded at step %d from %s reads timestamp %#x offset %v after step %d (want %#x, %v)", seq, kv.step, hx(kv.in), kv.v.Timestamp, fmtOff(got), i, wantTS, fmtOff(wantOff))
			}
		}
	}
	if len(keep) >= 2 {
		c.NonTrivial()
	}
	c.Outcome(fmt.Sprintf("kept=%d", len(keep)))
}
