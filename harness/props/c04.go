package props

import (
	"bytes"
	"errors"
	"fmt"
	"io"

	"github.com/pion/rtp"

	"verif/mc"
)

func init() {
	register(mc.Property{
		ID:   "C04",
		Rule: "one execution = one packet of the reduced C01 space x one prior buffer content; inside it every destination length 0..MarshalSize()+3 is tried for Packet.MarshalTo and Header.MarshalTo (each length is one case); non-trivial = packet has extension padding or RTP padding",
		Assumptions: []string{
			"reduced packet space keeps every size-affecting dimension: CSRC {0,1,15}, extension blocks with 0-3 bytes of 32-bit rounding, payload {0,1,5}, RTP padding {none,1,2,5,255}; thorough uses the full C01 quick space",
			"after a change: the packet is serialised once, then its size is changed (payload longer / emptied, CSRC entries added / removed, an extension added / all deleted, padding set, another packet decoded into the same value), and every destination length is tried again",
			"in place: the destination previously contained the packet itself - the packet is parsed from a buffer (its extension values and payload are views into it), one fixed field is changed (none / sequence number / marker / SSRC / timestamp), and it is serialised back into that same buffer, of exactly MarshalSize() bytes or with 3 more; the RTP padding filler bytes of the parsed image are zero or DE",
			"prior destination contents: all 00, all FF, all A5, i -> i; destinations with capacity == length and windows into a larger array (length < capacity: nothing behind the window may change)",
		},
		Scenarios: []mc.Scenario{
			{Name: "every-destination-length", Tiers: "qt", ShardDepth: 4, Run: c04Run},
			{Name: "every-destination-length-after-a-change-of-size", Tiers: "qt", ShardDepth: 4, Run: c04AfterChange},
			{Name: "destination-is-the-parsed-buffer", Tiers: "qt", ShardDepth: 4, Run: c04InPlace},
		},
	})
}

func c04Fill(dst []byte, pat int) {
	for i := range dst {
		switch pat {
		case 0:
			dst[i] = 0
		case 1:
			dst[i] = 0xFF
		case 2:
			dst[i] = 0xA5
		case 3:
			dst[i] = byte(i + 1)
		}
	}
}

func c04Run(c *mc.Ctx) {
	level := spaceReduced
	if c.Thorough() {
		level = spaceQuick
	}
	pat := c.Pick(4)
	spare := c.Bool() // destination has spare capacity behind its length
	p, w := genPacket(c, level, fixedPresets[c.Pick(2)])
	if c.Verbose() {
		c.Notef("packet: %s; prior buffer pattern %d; destination lengths 0..%d", describeWire(w), pat, p.MarshalSize()+3)
	}
	c04AllLengths(c, p, describeWire(w), pat, spare)
	if w.PadSize > 0 || (w.X && len(w.Body())%4 != 0) {
		c.NonTrivial()
	}
	c.Outcome(c01Class(w))
	_ = rtp.Header{}
}

// c04AfterChange: the packet is serialised once, then changed so that its size changes, and
// then every destination length is tried again: sizes remembered from the first call must not
// decide the second.
func c04AfterChange(c *mc.Ctx) {
	pat := c.Pick(4)
	spare := c.Bool()
	p, w := genPacket(c, spaceReduced, fixedPresets[c.Pick(2)])
	first := make([]byte, p.MarshalSize()+3)
	if _, err := p.MarshalTo(first); err != nil {
		c.Failf("marshal-failed", "%s: MarshalTo: %v", describeWire(w), err)
	}
	_, _ = p.Header.MarshalTo(first)
	change := c.Pick(8)
	what := ""
	switch change {
	case 0:
		what = "payload 7 bytes longer"
		p.Payload = append(clone(p.Payload), 1, 2, 3, 4, 5, 6, 7)
	case 1:
		what = "payload emptied"
		p.Payload = nil
	case 2:
		what = "two CSRC entries more"
		if len(p.CSRC) > 13 {
			c.Prune()
		}
		p.CSRC = append(append([]uint32{}, p.CSRC...), 0x01020304, 0x05060708)
	case 3:
		what = "CSRC list emptied"
		p.CSRC = nil
	case 4:
		what = "SetExtension of a new id with a 5-byte value"
		if err := p.SetExtension(3, []byte{1, 2, 3, 4, 5}); err != nil {
			c.Prune() // a legacy block takes no further element
		}
	case 5:
		what = "every extension deleted"
		for _, id := range p.GetExtensionIDs() {
			_ = p.DelExtension(id)
		}
	case 6:
		what = "padding of 9 bytes"
		p.Padding, p.PaddingSize = true, 9
	case 7:
		what = "another packet decoded into the same value"
		if err := p.Unmarshal([]byte{0x92, 0x60, 0, 1, 0, 0, 0, 2, 0, 0, 0, 3, 0, 0, 0, 4, 0, 0, 0, 5, 0xBE, 0xDE, 0, 2, 0x14, 1, 2, 3, 4, 5, 0, 0, 9, 8, 7}); err != nil {
			c.Failf("marshal-failed", "decoding the second packet: %v", err)
		}
	}
	desc := describeWire(w) + ", serialised once, then " + what
	if c.Verbose() {
		c.Notef("%s", desc)
	}
	c04AllLengths(c, p, desc, pat, spare)
	c.NonTrivial()
	c.Outcome(fmt.Sprintf("change=%d", change))
}

// c04AllLengths tries every destination length 0..MarshalSize()+3 for Packet.MarshalTo and
// Header.MarshalTo of p.
func c04AllLengths(c *mc.Ctx, p *rtp.Packet, desc string, pat int, spare bool) {
	want, err := p.Marshal()
	if err != nil {
		c.Failf("marshal-failed", "%s: Marshal: %v", desc, err)
	}
	size := p.MarshalSize()
	if len(want) != size {
		c.Failf("marshalto-size", "%s: Marshal() has %d bytes, MarshalSize() is %d", desc, len(want), size)
	}
	hwant, err := p.Header.Marshal()
	if err != nil {
		c.Failf("marshal-failed", "%s: Header.Marshal: %v", desc, err)
	}
	hsize := p.Header.MarshalSize()
	buf := make([]byte, size+3)
	ref := make([]byte, size+3)
	c04Fill(ref, pat)
	for L := 0; L <= size+3; L++ {
		dst := buf[:L:L]
		if spare {
			dst = buf[:L] // a window into a larger array: len < cap
			c04Fill(buf, pat)
		}
		c04Fill(dst, pat)
		n, err := p.MarshalTo(dst)
		if L < size {
			if !errors.Is(err, io.ErrShortBuffer) {
				c.Failf("short-buffer", "%s: MarshalTo(%d bytes, capacity %d) with MarshalSize %d returned n=%d err=%v, want io.ErrShortBuffer", desc, L, cap(dst), size, n, err)
			}
			if spare && L >= hsize && !bytes.Equal(buf[L:], ref[L:]) {
				c.Failf("wrote-beyond", "%s: MarshalTo into a %d-byte window of a larger array (too short) changed bytes behind the window", desc, L)
			}
		} else {
			if err != nil || n != size {
				c.Failf("marshalto-size", "%s: MarshalTo(%d bytes) = %d, %v; MarshalSize %d", desc, L, n, err, size)
			}
			if !bytes.Equal(dst[:n], want) {
				c.Failf("marshalto-differs-from-marshal", "%s: MarshalTo into a buffer pre-filled with pattern %d wrote %s, Marshal() gives %s", desc, pat, hx(dst[:n]), hx(want))
			}
			if !bytes.Equal(dst[n:], ref[n:L]) {
				c.Failf("wrote-beyond", "%s: MarshalTo(%d bytes) changed bytes beyond MarshalSize %d: %s", desc, L, size, hx(dst[n:]))
			}
		}
		if L > hsize+3 {
			continue
		}
		if spare {
			c04Fill(buf, pat)
		}
		c04Fill(dst, pat)
		n, err = p.Header.MarshalTo(dst)
		if L < hsize {
			if !errors.Is(err, io.ErrShortBuffer) {
				c.Failf("short-buffer", "%s: Header.MarshalTo(%d bytes, capacity %d) with MarshalSize %d returned n=%d err=%v", desc, L, cap(dst), hsize, n, err)
			}
			if spare && !bytes.Equal(buf[L:], ref[L:]) {
				c.Failf("wrote-beyond", "%s: Header.MarshalTo into a %d-byte window of a larger array (too short) changed bytes behind the window", desc, L)
			}
		} else {
			if err != nil || n != hsize || !bytes.Equal(dst[:n], hwant) {
				c.Failf("marshalto-differs-from-marshal", "%s: Header.MarshalTo(%d bytes, pattern %d) = %d, %v: %s, Header.Marshal() gives %s", desc, L, pat, n, err, hx(dst[:n]), hx(hwant))
			}
			if !bytes.Equal(dst[n:], ref[n:L]) {
				c.Failf("wrote-beyond", "%s: Header.MarshalTo(%d bytes) changed bytes beyond %d", desc, L, hsize)
			}
		}
	}
	c.Ops(2*size + 8)
	c.Cases(size + 3)
}

// c04InPlace: parse, touch a fixed field, serialise back into the buffer it was parsed from.
func c04InPlace(c *mc.Ctx) {
	level := spaceReduced
	if c.Thorough() {
		level = spaceQuick
	}
	touch := c.Pick(5)
	extra := 3 * c.Pick(2)
	p, w := genPacket(c, level, fixedPresets[c.Pick(2)])
	img, err := p.Marshal()
	if err != nil {
		c.Failf("marshal-failed", "%s: Marshal: %v", describeWire(w), err)
	}
	raw := append(clone(img), 0xE1, 0xE2, 0xE3)[:len(img)+extra]
	if w.PadSize > 1 && c.Bool() {
		// RTP padding filler is arbitrary on the wire; Marshal writes zeros
		for i := len(img) - int(w.PadSize); i < len(img)-1; i++ {
			raw[i] = 0xDE
		}
	}
	var q rtp.Packet
	if err := q.Unmarshal(raw[:len(img)]); err != nil {
		c.Failf("marshal-failed", "%s: Unmarshal of the packet's own serialisation: %v", describeWire(w), err)
	}
	switch touch {
	case 1:
		q.SequenceNumber++
	case 2:
		q.Marker = !q.Marker
	case 3:
		q.SSRC ^= 0xFFFFFFFF
	case 4:
		q.Timestamp += 960
	}
	// the expected bytes are taken from a copy that shares no memory with raw
	want, err := q.Clone().Marshal()
	if err != nil || len(want) != len(img) {
		c.Failf("marshal-failed", "%s: Marshal of the parsed packet: %d bytes, %v", describeWire(w), len(want), err)
	}
	hwant, _ := q.Header.Clone().Marshal()
	if c.Verbose() {
		c.Notef("packet: %s; field touched %d; destination = source buffer + %d bytes", describeWire(w), touch, extra)
	}
	before := clone(raw)
	if c.Bool() {
		n, err := q.Header.MarshalTo(raw)
		if err != nil || n != len(hwant) || !bytes.Equal(raw[:n], hwant) {
			c.Failf("marshalto-differs-from-marshal", "%s: Header.MarshalTo into the buffer the packet was parsed from (field touched %d) wrote %s (n=%d, %v), Marshal() gives %s", describeWire(w), touch, hx(raw[:minI(n, len(raw))]), n, err, hx(hwant))
		}
		if !bytes.Equal(raw[n:], before[n:]) {
			c.Failf("wrote-beyond", "%s: Header.MarshalTo in place changed bytes beyond the header", describeWire(w))
		}
	} else {
		n, err := q.MarshalTo(raw)
		if err != nil || n != len(want) || !bytes.Equal(raw[:n], want) {
			c.Failf("marshalto-differs-from-marshal", "%s: MarshalTo into the buffer the packet was parsed from (field touched %d) wrote %s (n=%d, %v), Marshal() gives %s", describeWire(w), touch, hx(raw[:minI(n, len(raw))]), n, err, hx(want))
		}
		if !bytes.Equal(raw[n:], []byte{0xE1, 0xE2, 0xE3}[:extra]) {
			c.Failf("wrote-beyond", "%s: MarshalTo in place changed bytes beyond MarshalSize", describeWire(w))
		}
	}
	c.Ops(4)
	if w.PadSize > 0 || (w.X && len(w.Body())%4 != 0) {
		c.NonTrivial()
	}
	c.Outcome(c01Class(w))
}
