package props

import (
	"bytes"
	"errors"
	"io"

	"github.com/pion/rtp"

	"verif/mc"
)

func init() {
	register(mc.Property{
		ID:   "C04",
		Rule: "one execution = one packet of the reduced C01 space x one prior buffer content; inside it every destination length 0..MarshalSize()+3 is tried for Packet.MarshalTo and Header.MarshalTo (each length is one case); non-trivial = packet has extension padding or RTP padding",
		Assumptions: []string{
			"reduced packet space keeps every size-affecting dimension: CSRC {0,1,15}, extension blocks with 0-3 bytes of 32-bit rounding, payload {0,1,5}, RTP padding {none,1,2,5,255}; thorough uses the full C01 quick space",
			"prior destination contents: all 00, all FF, all A5, i -> i; destinations with capacity == length and windows into a larger array (length < capacity: nothing behind the window may change)",
		},
		Scenarios: []mc.Scenario{
			{Name: "every-destination-length", Tiers: "qt", ShardDepth: 4, Run: c04Run},
		},
	})
}

func c04Fill(dst []byte, pat int) {
	for i := range dst {
		switch pat {
		case 0:
			dst[i] = 0
		case 1:
			dst[i] = 0xFF
		case 2:
			dst[i] = 0xA5
		case 3:
			dst[i] = byte(i + 1)
		}
	}
}

func c04Run(c *mc.Ctx) {
	level := spaceReduced
	if c.Thorough() {
		level = spaceQuick
	}
	pat := c.Pick(4)
	spare := c.Bool() // destination has spare capacity behind its length
	p, w := genPacket(c, level, fixedPresets[c.Pick(2)])
	if c.Verbose() {
		c.Notef("packet: %s; prior buffer pattern %d; destination lengths 0..%d", describeWire(w), pat, p.MarshalSize()+3)
	}
	want, err := p.Marshal()
	if err != nil {
		c.Failf("marshal-failed", "%s: Marshal: %v", describeWire(w), err)
	}
	size := p.MarshalSize()
	hwant, err := p.Header.Marshal()
	if err != nil {
		c.Failf("marshal-failed", "%s: Header.Marshal: %v", describeWire(w), err)
	}
	hsize := p.Header.MarshalSize()
	buf := make([]byte, size+3)
	ref := make([]byte, size+3)
	c04Fill(ref, pat)
	for L := 0; L <= size+3; L++ {
		dst := buf[:L:L]
		if spare {
			dst = buf[:L] // a window into a larger array: len < cap
			c04Fill(buf, pat)
		}
		c04Fill(dst, pat)
		n, err := p.MarshalTo(dst)
		if L < size {
			if !errors.Is(err, io.ErrShortBuffer) {
				c.Failf("short-buffer", "%s: MarshalTo(%d bytes, capacity %d) with MarshalSize %d returned n=%d err=%v, want io.ErrShortBuffer", describeWire(w), L, cap(dst), size, n, err)
			}
			if spare && L >= hsize && !bytes.Equal(buf[L:], ref[L:]) {
				c.Failf("wrote-beyond", "%s: MarshalTo into a %d-byte window of a larger array (too short) changed bytes behind the window", describeWire(w), L)
			}
		} else {
			if err != nil || n != size {
				c.Failf("marshalto-size", "%s: MarshalTo(%d bytes) = %d, %v; MarshalSize %d", describeWire(w), L, n, err, size)
			}
			if !bytes.Equal(dst[:n], want) {
				c.Failf("marshalto-differs-from-marshal", "%s: MarshalTo into a buffer pre-filled with pattern %d wrote %s, Marshal() gives %s", describeWire(w), pat, hx(dst[:n]), hx(want))
			}
			if !bytes.Equal(dst[n:], ref[n:L]) {
				c.Failf("wrote-beyond", "%s: MarshalTo(%d bytes) changed bytes beyond MarshalSize %d: %s", describeWire(w), L, size, hx(dst[n:]))
			}
		}
		if L > hsize+3 {
			continue
		}
		if spare {
			c04Fill(buf, pat)
		}
		c04Fill(dst, pat)
		n, err = p.Header.MarshalTo(dst)
		if L < hsize {
			if !errors.Is(err, io.ErrShortBuffer) {
				c.Failf("short-buffer", "%s: Header.MarshalTo(%d bytes, capacity %d) with MarshalSize %d returned n=%d err=%v", describeWire(w), L, cap(dst), hsize, n, err)
			}
			if spare && !bytes.Equal(buf[L:], ref[L:]) {
				c.Failf("wrote-beyond", "%s: Header.MarshalTo into a %d-byte window of a larger array (too short) changed bytes behind the window", describeWire(w), L)
			}
		} else {
			if err != nil || n != hsize || !bytes.Equal(dst[:n], hwant) {
				c.Failf("marshalto-differs-from-marshal", "%s: Header.MarshalTo(%d bytes, pattern %d) = %d, %v: %s, Header.Marshal() gives %s", describeWire(w), L, pat, n, err, hx(dst[:n]), hx(hwant))
			}
			if !bytes.Equal(dst[n:], ref[n:L]) {
				c.Failf("wrote-beyond", "%s: Header.MarshalTo(%d bytes) changed bytes beyond %d", describeWire(w), L, hsize)
			}
		}
	}
	c.Ops(2*size + 8)
	c.Cases(size + 3)
	if w.PadSize > 0 || (w.X && len(w.Body())%4 != 0) {
		c.NonTrivial()
	}
	c.Outcome(c01Class(w))
	_ = rtp.Header{}
}
