package props

import (
	"bytes"
	"fmt"

	"github.com/pion/rtp"
	"github.com/pion/rtp/codecs"

	"verif/mc"
)

func init() {
	register(mc.Property{
		ID:   "C16",
		Rule: "one case = (payloader, input length, MTU) or (depacketizer input, marker); non-trivial = input non-empty (payloaders: at least one fragment returned)",
		Assumptions: []string{
			"content dictionary: inputs that begin with one of 13 well-known container / codec signatures (OpusHead, OpusTags, OggS, RIFF, ...), 0 / 1 / 11 / 200 bytes behind it, MTU {1,7,100,1200}",
			"payload content is position dependent (byte(i*7+seed)); the payloaders never branch on content",
			"OpusPacket and OpusPayloader additionally see EVERY byte string of 1-3 bytes (content must not matter) and 4-6 byte strings over 6 symbols; G711/G722 additionally split 65535/65536/65537/70000/200000 bytes at MTU {1,255,256,1200,65535}",
			"other lengths above 10000 and MTUs outside the stated alphabets are outside the bound",
		},
		Scenarios: []mc.Scenario{
			{Name: "split-grid-0..300x1..300", Tiers: "qt", ShardDepth: 1, Run: c16Grid},
			{Name: "split-long", Tiers: "qt", ShardDepth: 2, Run: c16Long},
			{Name: "opus-depacketizer", Tiers: "qt", ShardDepth: 1, Run: c16OpusPacket},
			{Name: "opus-depacketizer-all-strings-up-to-3-bytes", Tiers: "qt", ShardDepth: 1, Run: c16OpusAll},
			{Name: "split-beyond-16-bit-lengths", Tiers: "qt", ShardDepth: 2, Run: c16Huge},
			{Name: "well-known-content-prefixes", Tiers: "qt", ShardDepth: 2, Run: c16Magic},
		},
	})
}

var c16MTUs = []int{1, 2, 3, 159, 160, 161, 1199, 1200, 1500, 9999, 10000, 10001, 65535}

func c16Grid(c *mc.Ctx) {
	n := c.Pick(302) - 1 // -1 = nil input
	mtu := 1 + c.Pick(300)
	c16Split(c, n, mtu)
}

func c16Long(c *mc.Ctx) {
	mtu := mc.From(c, c16MTUs)
	var n int
	if c.Thorough() {
		n = c.Pick(10001)
	} else {
		// lengths around every multiple of the MTU up to 10000, plus the ends
		var ls []int
		seen := map[int]bool{}
		add := func(v int) {
			if v >= 0 && v <= 10000 && !seen[v] {
				seen[v] = true
				ls = append(ls, v)
			}
		}
		for _, v := range []int{0, 1, 2, 9999, 10000} {
			add(v)
		}
		step := mtu
		if step < 97 {
			step = mtu * (97/mtu + 1) // thin out tiny MTUs in the quick tier: still every residue boundary
		}
		for k := step; k <= 10001; k += step {
			add(k - 1)
			add(k)
			add(k + 1)
		}
		n = mc.From(c, ls)
	}
	c16Split(c, n, mtu)
}

// c16Prefix, when set, replaces the first bytes of the generated input.
var c16Prefix []byte

// container and codec signatures an audio payload is sometimes (wrongly) tested for
var c16Magics = []string{"OpusHead", "OpusTags", "OggS", "RIFF", "WAVE", "fLaC", "ID3", "\xff\xfb", ".snd", "FORM", "\x00\x00\x00\x01", "RTP", "\x80\x60"}

// c16Magic: payloads that begin with a well-known signature are payload bytes like any other.
func c16Magic(c *mc.Ctx) {
	m := []byte(mc.From(c, c16Magics))
	n := len(m) + mc.From(c, []int{0, 1, 11, 200})
	mtu := mc.From(c, []int{1, 7, 100, 1200})
	c16Prefix = m
	defer func() { c16Prefix = nil }()
	c16Split(c, n, mtu)
	in := fill(n, 3)
	copy(in, m)
	var p codecs.OpusPacket
	out, err := p.Unmarshal(clone(in))
	if err != nil || !bytes.Equal(out, in) || !bytes.Equal(p.Payload, in) {
		c.Failf("opus-unchanged", "OpusPacket.Unmarshal(%s) = %s, %v", hx(in), hx(out), err)
	}
}

func c16Split(c *mc.Ctx, n, mtu int) {
	var in []byte
	if n >= 0 {
		in = fill(n, 3)
		copy(in, c16Prefix)
	}
	c.Notef("len=%d mtu=%d", n, mtu)
	for pi, pl := range []rtp.Payloader{&codecs.G711Payloader{}, &codecs.G722Payloader{}} {
		name := []string{"G711", "G722"}[pi]
		orig := clone(in)
		frags := pl.Payload(uint16(mtu), in)
		c.Ops(1)
		c.Check(bytes.Equal(in, orig), "input-modified", "%s len=%d mtu=%d: input changed", name, n, mtu)
		if !bytes.Equal(concat(frags), in) {
			c.Failf("concat", "%s len=%d mtu=%d: fragments %s do not concatenate to the input", name, n, mtu, hxs(frags))
		}
		for i, f := range frags {
			if i < len(frags)-1 {
				if len(f) != mtu {
					c.Failf("full-fragments", "%s len=%d mtu=%d: fragment %d of %d has %d bytes", name, n, mtu, i, len(frags), len(f))
				}
			} else if n > 0 && (len(f) < 1 || len(f) > mtu) {
				c.Failf("last-fragment", "%s len=%d mtu=%d: last fragment has %d bytes", name, n, mtu, len(f))
			}
			if overlap(f, in) {
				c.Failf("alias", "%s len=%d mtu=%d: fragment %d aliases the input", name, n, mtu, i)
			}
		}
		if n > 0 {
			c.Check(len(frags) == (n+mtu-1)/mtu, "count", "%s len=%d mtu=%d: %d fragments", name, n, mtu, len(frags))
		}
	}
	// Opus: one fragment, equal, not aliasing
	orig := clone(in)
	// the input is handed over with spare capacity for a second copy behind it (a read buffer
	// cut to the packet's length): a fragment placed there shares the caller's array
	in, intact := guard(in)
	frags := (&codecs.OpusPayloader{}).Payload(uint16(mtu), in)
	c.Ops(1)
	c.Check(bytes.Equal(in, orig) && intact(), "input-modified", "Opus len=%d: input (or the spare capacity behind it) changed", n)
	if n < 0 {
		c.Check(len(frags) == 0, "opus-nil", "Opus nil input: %d fragments", len(frags))
	} else {
		c.Check(len(frags) == 1 && bytes.Equal(frags[0], in), "opus-one-fragment", "Opus len=%d mtu=%d: got %s", n, mtu, hxs(frags))
		c.Check(!overlap(frags[0], in), "opus-alias", "Opus len=%d: fragment aliases the input", n)
		if n > 0 {
			scribble(in)
			c.Check(bytes.Equal(frags[0], orig), "opus-alias", "Opus len=%d: fragment changed when the input was overwritten", n)
		}
	}
	if n > 0 {
		c.NonTrivial()
	}
	c.Outcome(fmt.Sprintf("frags=%d", minI((n+mtu-1)/mtu, 5)))
}

func minI(a, b int) int {
	if a < b {
		return a
	}
	return b
}

func c16OpusPacket(c *mc.Ctx) {
	n := c.Pick(302) - 1
	seed := byte(c.Pick(3) * 0x55)
	var in []byte
	if n >= 0 {
		in = fill(n, seed)
	}
	used := c.Bool() // receiver used before
	p := &codecs.OpusPacket{}
	if used {
		_, _ = p.Unmarshal([]byte{1, 2, 3})
	}
	orig := clone(in)
	out, err := p.Unmarshal(in)
	c.Ops(1)
	c.Notef("OpusPacket.Unmarshal(%s) used=%v", hx(in), used)
	if n <= 0 {
		c.Check(err != nil, "opus-reject", "OpusPacket accepted %s", hx(in))
		c.Outcome("rejected")
	} else {
		c.Check(err == nil && bytes.Equal(out, orig) && bytes.Equal(in, orig), "opus-unchanged", "OpusPacket.Unmarshal(%s) = %s, %v", hx(orig), hx(out), err)
		c.Check(bytes.Equal(p.Payload, orig), "opus-unchanged", "OpusPacket.Payload = %s", hx(p.Payload))
		c.NonTrivial()
		c.Outcome("accepted")
	}
	for _, marker := range []bool{false, true} {
		c.Check(p.IsPartitionHead(in), "opus-partition", "IsPartitionHead(%s) false", hx(in))
		c.Check(p.IsPartitionTail(marker, in), "opus-partition", "IsPartitionTail(%v,%s) false", marker, hx(in))
		c.Ops(2)
	}
	c.Check((&codecs.OpusPartitionHeadChecker{}).IsPartitionHead(in), "opus-partition", "OpusPartitionHeadChecker(%s) false", hx(in))
}

func c16OpusAll(c *mc.Ctx) {
	b0 := byte(c.Pick(256))
	var p codecs.OpusPacket
	pl := &codecs.OpusPayloader{}
	n := 0
	try := func(in []byte) {
		n++
		keep := clone(in)
		out, err := p.Unmarshal(in)
		if err != nil || !bytes.Equal(out, keep) || !bytes.Equal(p.Payload, keep) {
			c.Failf("opus-unchanged", "OpusPacket.Unmarshal(%s) = %s, %v", hx(keep), hx(out), err)
		}
		fr := pl.Payload(1, in)
		if len(fr) != 1 || !bytes.Equal(fr[0], keep) {
			c.Failf("opus-one-fragment", "OpusPayloader.Payload(%s) = %s", hx(keep), hxs(fr))
		}
	}
	try([]byte{b0})
	for b1 := 0; b1 < 256; b1++ {
		try([]byte{b0, byte(b1)})
		for b2 := 0; b2 < 256; b2++ {
			try([]byte{b0, byte(b1), byte(b2)})
		}
	}
	sym := []byte{0x00, 0x03, 0x41, 0x7F, 0xFC, 0xFF}
	for _, a := range sym {
		for _, b := range sym {
			for _, d := range sym {
				try([]byte{b0, a, b, d})
				try([]byte{b0, a, b, d, a, 0x05})
			}
		}
	}
	c.Ops(2 * n)
	c.Cases(n - 1)
	if c.Verbose() {
		c.Notef("Opus: %d strings starting with %02x", n, b0)
	}
	c.NonTrivial()
	c.Outcome("ok")
}

func c16Huge(c *mc.Ctx) {
	n := mc.From(c, []int{65535, 65536, 65537, 70000, 200000})
	mtu := mc.From(c, []int{1, 255, 256, 1200, 65535})
	if mtu == 1 && n > 70000 {
		return
	}
	c16Split(c, n, mtu)
}
