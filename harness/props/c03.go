package props

import (
	"bytes"
	"fmt"
	"strings"
	"unsafe"

	"github.com/pion/rtp"

	"verif/mc"
	"verif/ref"
)

func init() {
	register(mc.Property{
		ID:   "C03",
		Rule: "one case = one wire image generated from the RFC 3550/8285 grammar by the reference builder (CSRC count, block kind, item sequence of pad runs / elements / id-15 terminator, extra pad word, payload, RTP padding with filler), decoded by the library and checked against the generating values, re-encoded, and given to the standalone block views; plus every single-byte mutation of images that the library accepts; non-trivial = image has an extension block",
		Assumptions: []string{
			"a well-formed image for every value of the first two header octets (65536 images)",
			"items per RFC 8285 block: up to 3 in full product with CSRC/payload/padding, up to 4 (quick) / 5 (thorough) with reduced other dimensions; one-byte ids {1,2,14} lengths {1,2,3,16}; two-byte ids {1,15,255} lengths {0,1,2,255}; pad runs 1-3; duplicate ids and id-0 bytes with a non-zero length nibble are not generated (RFC leaves the receiver's behaviour open)",
			"an id-15 terminator followed by ignored bytes is part of the grammar (RFC 8285 4.2 tells the receiver how to treat it); the pinned payload-start behaviour of the library after a terminator is a listed known finding with an exact defect model",
			"a further scenario: legacy blocks of 16383-65535 words, two-byte blocks of 64 / 255 elements of 254-255 bytes, one-byte blocks of 14 elements with pad runs before every element and up to 40 extra pad words, each followed by all-zero payloads of 0/8/9/24/1300 bytes (content indistinguishable from extension padding) or patterned payloads",
			"canonical layout = what the reference builder writes for the content without pad items, terminator, extra pad words, with zero padding filler",
		},
		Scenarios: []mc.Scenario{
			{Name: "grammar-3-items-full-product", Tiers: "qt", ShardDepth: 4, Run: func(c *mc.Ctx) { c03Grammar(c, 3, true) }},
			{Name: "grammar-4-items", Tiers: "qt", ShardDepth: 4, Run: func(c *mc.Ctx) { c03Grammar(c, 4, false) }},
			{Name: "grammar-5-items", Tiers: "t", ShardDepth: 4, Run: func(c *mc.Ctx) { c03Grammar(c, 5, false) }},
			{Name: "huge-blocks-and-zero-payloads", Tiers: "qt", ShardDepth: 3, Run: c03Huge},
			{Name: "every-first-two-octets", Tiers: "qt", ShardDepth: 3, Run: c03FirstOctets},
			{Name: "accepted-mutations", Tiers: "qt", ShardDepth: 4, Run: c03Mutations},
		},
	})
}

var (
	c03OneIDs  = []uint8{1, 2, 14}
	c03OneLens = []int{1, 2, 3, 16}
	c03TwoIDs  = []uint8{1, 15, 255}
	c03TwoLens = []int{0, 1, 2, 255}
	c03Junk    = [][]byte{nil, {0x00}, {0x10, 0xAA}, {0x21, 0xBB, 0xCC}, {0xE0}, {0x1F, 0x00, 0x00}, {0x00, 0x10, 0xAA}, {0x00, 0x1F}, {0x55, 0x21, 0xBB, 0xCC, 0x00}}
)

// c03Block decides an RFC 8285 block body of at most maxItems items.
func c03Block(c *mc.Ctx, w *ref.Wire, maxItems int) {
	ids, lens := c03OneIDs, c03OneLens
	if w.Profile == ref.ProfileTwoByte {
		ids, lens = c03TwoIDs, c03TwoLens
	}
	var used []uint8
	for i := 0; i < maxItems; i++ {
		// 0 end, 1 pad, 2 element, 3 terminator (one-byte only)
		kinds := 3
		if w.Profile == ref.ProfileOneByte {
			kinds = 4
		}
		k := c.Pick(kinds)
		switch k {
		case 0:
			return
		case 1:
			w.Items = append(w.Items, ref.Item{Kind: ref.ItemPad, N: 1 + c.Pick(3)})
		case 2:
			if len(used) == len(ids) {
				return
			}
			id := pickDistinctID(c, ids, used)
			used = append(used, id)
			l := mc.From(c, lens)
			w.Items = append(w.Items, ref.Item{Kind: ref.ItemElem, Elem: ref.Elem{ID: id, Val: fill(l, id*3+byte(i))}})
		case 3:
			w.Items = append(w.Items, ref.Item{Kind: ref.ItemTerminator, Len4: uint8(c.Pick(2) * 5), Junk: mc.From(c, c03Junk)})
			return
		}
	}
}

func c03Image(c *mc.Ctx, maxItems int, full bool) *ref.Wire {
	w := &ref.Wire{Version: 2, PT: 96, Seq: 0x1234, TS: 0xDEADBEEF, SSRC: 0x11223344}
	if c.Bool() {
		w.Version, w.Marker, w.PT, w.Seq, w.TS, w.SSRC = 3, true, 127, 0xFFFF, 0xFFFFFFFF, 0x80000001
	}
	ccs := []int{0, 1, 3, 15}
	if !full {
		ccs = []int{0, 15}
	}
	cc := mc.From(c, ccs)
	for i := 0; i < cc; i++ {
		w.CSRC = append(w.CSRC, 0x0A0B0C0D+uint32(i)*0x10101010)
	}
	kind := c.Pick(4)
	switch kind {
	case 0:
	case 1, 2:
		w.X = true
		w.Profile = []uint16{0, ref.ProfileOneByte, ref.ProfileTwoByte}[kind]
		c03Block(c, w, maxItems)
		w.ExtraPadWords = c.Pick(2)
	case 3:
		w.X = true
		w.Profile = mc.From(c, []uint16{0x0000, 0x1234, 0x1001, 0xBEDF, 0xFFFF})
		w.Legacy = fill(4*mc.From(c, []int{0, 1, 2, 5}), 0x99)
	}
	pls := []int{0, 1, 5}
	if !full {
		pls = []int{0, 5}
	}
	w.Payload = fill(mc.From(c, pls), 0x31)
	type pad struct {
		n    int
		fill byte
	}
	pads := []pad{{0, 0}, {1, 0}, {2, 0}, {2, 0xAB}, {5, 0}, {5, 0xAB}, {255, 0x5A}}
	if !full {
		pads = []pad{{0, 0}, {1, 0}, {5, 0xAB}}
	}
	pd := mc.From(c, pads)
	w.PadSize, w.PadFill = pd.n, pd.fill
	return w
}

// projection of a decoded packet: everything the property calls "the packet"
type proj struct {
	version  uint8
	p, x, m  bool
	pt       uint8
	seq      uint16
	ts, ssrc uint32
	csrc     []uint32
	profile  uint16
	ids      []uint8
	vals     [][]byte
	payload  []byte
	pad      byte
}

func project(p *rtp.Packet) proj {
	pr := proj{version: p.Version, p: p.Padding, x: p.Extension, m: p.Marker, pt: p.PayloadType, seq: p.SequenceNumber, ts: p.Timestamp, ssrc: p.SSRC,
		csrc: append([]uint32(nil), p.CSRC...), payload: clone(p.Payload), pad: p.PaddingSize}
	if p.Extension {
		pr.profile = p.ExtensionProfile
		pr.ids = p.GetExtensionIDs()
		for _, id := range pr.ids {
			pr.vals = append(pr.vals, clone(p.GetExtension(id)))
		}
	}
	return pr
}

func (a proj) diff(b proj) string {
	switch {
	case a.version != b.version:
		return fmt.Sprintf("version %d vs %d", a.version, b.version)
	case a.p != b.p:
		return fmt.Sprintf("padding flag %v vs %v", a.p, b.p)
	case a.x != b.x:
		return fmt.Sprintf("extension flag %v vs %v", a.x, b.x)
	case a.m != b.m:
		return fmt.Sprintf("marker %v vs %v", a.m, b.m)
	case a.pt != b.pt:
		return fmt.Sprintf("payload type %d vs %d", a.pt, b.pt)
	case a.seq != b.seq:
		return fmt.Sprintf("sequence %d vs %d", a.seq, b.seq)
	case a.ts != b.ts:
		return fmt.Sprintf("timestamp %#x vs %#x", a.ts, b.ts)
	case a.ssrc != b.ssrc:
		return fmt.Sprintf("ssrc %#x vs %#x", a.ssrc, b.ssrc)
	case fmt.Sprint(a.csrc) != fmt.Sprint(b.csrc):
		return fmt.Sprintf("csrc %x vs %x", a.csrc, b.csrc)
	case a.profile != b.profile:
		return fmt.Sprintf("profile %#x vs %#x", a.profile, b.profile)
	case !bytes.Equal(a.ids, b.ids):
		return fmt.Sprintf("extension ids %v vs %v", a.ids, b.ids)
	case !equalAll(a.vals, b.vals):
		return fmt.Sprintf("extension values %s vs %s", hxs(a.vals), hxs(b.vals))
	case !bytes.Equal(a.payload, b.payload):
		return fmt.Sprintf("payload %s vs %s", hx(a.payload), hx(b.payload))
	case a.pad != b.pad:
		return fmt.Sprintf("padding size %d vs %d", a.pad, b.pad)
	}
	return ""
}

func c03Grammar(c *mc.Ctx, maxItems int, full bool) {
	c03Check(c, c03Image(c, maxItems, full))
}

// c03Huge: blocks of 64 KiB and more, the largest two-byte block, long one-byte blocks
// with interior padding, and payloads that consist of zero bytes.
func c03Huge(c *mc.Ctx) {
	w := &ref.Wire{Version: 2, PT: 96, Seq: 7, TS: 8, SSRC: 9, X: true}
	if c.Bool() {
		w.CSRC = []uint32{1, 2, 3}
	}
	switch c.Pick(4) {
	case 0:
		w.Profile = mc.From(c, []uint16{0x1234, 0x0000, 0xFFFF})
		w.Legacy = fill(4*mc.From(c, []int{16383, 16384, 16385, 32768, 65535}), 0x6D)
	case 1:
		w.Profile = ref.ProfileTwoByte
		n := mc.From(c, []int{64, 255})
		for i := 1; i <= n; i++ {
			if i%50 == 0 {
				w.Items = append(w.Items, ref.Item{Kind: ref.ItemPad, N: 1 + i%3})
			}
			w.Items = append(w.Items, ref.Item{Kind: ref.ItemElem, Elem: ref.Elem{ID: uint8(i), Val: fill(255-(i%2), byte(i))}})
		}
	case 2:
		w.Profile = ref.ProfileOneByte
		variant := c.Pick(3)
		for i := 1; i <= 14; i++ {
			w.Items = append(w.Items, ref.Item{Kind: ref.ItemPad, N: 1 + (i+variant)%3})
			w.Items = append(w.Items, ref.Item{Kind: ref.ItemElem, Elem: ref.Elem{ID: uint8(i), Val: fill(1+(i*5)%16, byte(i))}})
		}
		w.ExtraPadWords = c.Pick(3) * 20
	case 3:
		w.Profile = mc.From(c, []uint16{ref.ProfileOneByte, ref.ProfileTwoByte})
		w.Items = []ref.Item{{Kind: ref.ItemElem, Elem: ref.Elem{ID: 3, Val: fill(1+c.Pick(3), 7)}}}
		w.ExtraPadWords = c.Pick(2)
	}
	n := mc.From(c, []int{0, 8, 9, 24, 1300})
	w.Payload = make([]byte, n) // all zero: indistinguishable from extension padding by content
	if c.Bool() {
		w.Payload = fill(n, 0x51)
	}
	if c.Bool() {
		w.PadSize, w.PadFill = 4, 0
	}
	c03Check(c, w)
}

func c03Check(c *mc.Ctx, w *ref.Wire) {
	img := w.Build()
	if c.Verbose() {
		c.Notef("image %s = %s", describeWire(w), hx(img))
	}
	desc := func() string { return describeWire(w) + " = " + hx(img) }

	termOff := -1 // offset of an id-15 terminator inside the body
	if w.X && w.Profile == ref.ProfileOneByte {
		off := 0
		for _, it := range w.Items {
			switch it.Kind {
			case ref.ItemPad:
				off += it.N
			case ref.ItemElem:
				off += 1 + len(it.Elem.Val)
			case ref.ItemTerminator:
				termOff = off
			}
			if termOff >= 0 {
				break
			}
		}
	}

	// (1) accepted and decoded to the generating values
	var q rtp.Packet
	in := clone(img)
	err := q.Unmarshal(in)
	c.Ops(1)
	if err != nil {
		c.Failf("well-formed-rejected", "%s: Unmarshal: %v", desc(), err)
	}
	if !bytes.Equal(in, img) {
		c.Failf("input-modified", "%s: Unmarshal changed its input", desc())
	}
	var h rtp.Header
	n, err := h.Unmarshal(in)
	c.Ops(1)
	if err != nil {
		c.Failf("well-formed-rejected", "%s: Header.Unmarshal: %v", desc(), err)
	}
	knownD3 := false
	if termOff >= 0 {
		// defect model of the listed finding: parsing stops at the terminator but the header
		// is taken to end right after the terminator byte instead of at the block end
		buggyN := 12 + 4*len(w.CSRC) + 4 + termOff + 1
		if n == buggyN && buggyN != w.HeaderLen() {
			wb := *w
			end := len(img) - w.PadSize
			wb.Payload = img[buggyN:end]
			if d := comparePacket(&q, &wb); d == "" {
				knownD3 = true
				c.Finding("terminator-payload-start", "one-byte block with an id-15 terminator at body offset %d: header length reported as %d (right after the terminator) instead of %d (end of the block), rest of the block delivered as payload; image %s", termOff, n, w.HeaderLen(), hx(img))
			}
		}
	}
	if !knownD3 {
		if n != w.HeaderLen() {
			c.Failf("header-length", "%s: Header.Unmarshal reports %d bytes, the header (incl. extension block) has %d", desc(), n, w.HeaderLen())
		}
		if d := compareHeader(&h, w); d != "" {
			c.Failf("decoded-differs", "%s: Header.Unmarshal: %s", desc(), d)
		}
		if d := comparePacket(&q, w); d != "" {
			c.Failf("decoded-differs", "%s: %s", desc(), d)
		}
		if len(q.Payload) > 0 && unsafe.Pointer(&q.Payload[0]) != unsafe.Pointer(&in[w.HeaderLen()]) {
			c.Failf("payload-start", "%s: payload does not start right after the extension block", desc())
		}
	}

	// (2) re-encoding
	c03Reencode(c, &q, img, w.Canonical(), desc)

	// (3) standalone block views
	if w.X {
		c03Views(c, w, img, desc)
	}
	if w.X {
		c.NonTrivial()
	}
	cls := "none"
	if w.X {
		cls = fmt.Sprintf("%#04x items=%d term=%v", w.Profile, len(w.Items), termOff >= 0)
	}
	c.Outcome(cls)
}

// c03Reencode is oracle (2): for any accepted input Marshal reports invalid padding or
// yields bytes that decode to an equal packet; identical to the input when canonical.
func c03Reencode(c *mc.Ctx, q *rtp.Packet, img []byte, canonical bool, desc func() string) {
	before := project(q)
	m, err := q.Marshal()
	c.Ops(1)
	if q.Padding && q.PaddingSize == 0 {
		if err == nil || !strings.Contains(err.Error(), "padding") {
			c.Failf("invalid-padding-not-reported", "%s: decoded packet has P set with count 0, Marshal returned %s, %v", desc(), hx(m), err)
		}
		c.Outcome("invalid-padding")
		return
	}
	if err != nil {
		c.Failf("reencode-failed", "%s: Marshal of the decoded packet: %v", desc(), err)
	}
	var r rtp.Packet
	if err := r.Unmarshal(m); err != nil {
		c.Failf("reencode-unparsable", "%s: re-encoded bytes %s: Unmarshal: %v", desc(), hx(m), err)
	}
	c.Ops(1)
	if d := before.diff(project(&r)); d != "" {
		c.Failf("reencode-differs", "%s: decoded packet vs. decode of its re-encoding %s: %s", desc(), hx(m), d)
	}
	if canonical && !bytes.Equal(m, img) {
		c.Failf("reencode-not-identical", "%s: input is in canonical layout but Marshal gives %s", desc(), hx(m))
	}
}

func c03Views(c *mc.Ctx, w *ref.Wire, img []byte, desc func() string) {
	start := 12 + 4*len(w.CSRC)
	block := clone(img[start:w.HeaderLen()])
	orig := clone(block)
	var v rtp.HeaderExtension
	name := ""
	switch w.Profile {
	case ref.ProfileOneByte:
		v, name = &rtp.OneByteHeaderExtension{}, "OneByteHeaderExtension"
	case ref.ProfileTwoByte:
		v, name = &rtp.TwoByteHeaderExtension{}, "TwoByteHeaderExtension"
	default:
		v, name = &rtp.RawExtension{}, "RawExtension"
	}
	n, err := v.Unmarshal(block)
	c.Ops(1)
	if err != nil || n != len(block) {
		c.Failf("view-unmarshal", "%s: %s.Unmarshal(%s) = %d, %v", desc(), name, hx(block), n, err)
	}
	want := w.Elements()
	ids := v.GetIDs()
	c.Ops(1)
	wantIDs := make([]uint8, 0, len(want))
	for _, e := range want {
		wantIDs = append(wantIDs, e.ID)
	}
	if !bytes.Equal(ids, wantIDs) {
		c.Failf("view-ids", "%s: %s.GetIDs() = %v, want %v", desc(), name, ids, wantIDs)
	}
	for _, e := range want {
		got := v.Get(e.ID)
		c.Ops(1)
		if !bytes.Equal(got, e.Val) {
			if name == "RawExtension" && bytes.Equal(got, orig) {
				c.Finding("raw-view-value-includes-block-header", "RawExtension.Unmarshal(block).Get(0) returns the whole block including its 4-byte profile/length header (%s) where Header.GetExtension(0) returns the value %s", hx(got), hx(e.Val))
				continue
			}
			c.Failf("view-value", "%s: %s.Get(%d) = %s, want %s", desc(), name, e.ID, hx(got), hx(e.Val))
		}
	}
	// ids of the alphabet that are not in the block (or only after a terminator) are absent
	for _, id := range []uint8{1, 2, 14, 15, 255, 3} {
		present := false
		for _, e := range want {
			if e.ID == id {
				present = true
			}
		}
		if present || (name == "RawExtension") {
			continue
		}
		if name == "OneByteHeaderExtension" && id > 14 {
			continue
		}
		if got := v.Get(id); got != nil {
			c.Failf("view-absent-id", "%s: %s.Get(%d) = %s for an id that is not an element of the block (GetIDs = %v)", desc(), name, id, hx(got), ids)
		}
		c.Ops(1)
	}
	if sz := v.MarshalSize(); sz != len(orig) {
		c.Failf("view-reserialise", "%s: %s.MarshalSize() = %d, block has %d bytes", desc(), name, sz, len(orig))
	}
	m, err := v.Marshal()
	if err != nil || !bytes.Equal(m, orig) {
		c.Failf("view-reserialise", "%s: %s.Marshal() = %s, %v; want %s", desc(), name, hx(m), err, hx(orig))
	}
	dst := make([]byte, len(orig)+2)
	for i := range dst {
		dst[i] = 0xC3
	}
	k, err := v.MarshalTo(dst)
	if err != nil || k != len(orig) || !bytes.Equal(dst[:k], orig) || dst[k] != 0xC3 {
		c.Failf("view-reserialise", "%s: %s.MarshalTo = %d, %v: %s; want %s", desc(), name, k, err, hx(dst[:len(orig)]), hx(orig))
	}
	exact := make([]byte, len(orig))
	if k, err := v.MarshalTo(exact); err != nil || k != len(orig) || !bytes.Equal(exact, orig) {
		c.Failf("view-reserialise", "%s: %s.MarshalTo into exactly MarshalSize() = %d bytes: %d, %v: %s; want %s", desc(), name, len(orig), k, err, hx(exact), hx(orig))
	}
	if len(orig) > 0 {
		if _, err := v.MarshalTo(dst[:len(orig)-1]); err == nil {
			c.Failf("view-reserialise", "%s: %s.MarshalTo into %d bytes succeeded, needs %d", desc(), name, len(orig)-1, len(orig))
		}
	}
	c.Ops(4)
}

var c03MutVals = []byte{0x00, 0x01, 0x0F, 0x10, 0x7F, 0x80, 0xFF}

// c03Mutations: every single-byte replacement in the header part of grammar images; for
// every mutant the library accepts, oracle (2).
func c03Mutations(c *mc.Ctx) {
	maxItems := 2
	if c.Thorough() {
		maxItems = 3
	}
	w := c03Image(c, maxItems, false)
	img := w.Build()
	limit := w.HeaderLen() + 2
	if limit > len(img) {
		limit = len(img)
	}
	accepted := 0
	total := 0
	for i := 0; i < len(img); i++ {
		if i >= limit && i < len(img)-2 {
			continue // payload interior: not interpreted
		}
		if i >= 2 && i < 12 {
			continue // sequence / timestamp / ssrc: covered by C01
		}
		if i >= 16 && i < 12+4*len(w.CSRC) {
			continue // CSRC entries after the first: not interpreted
		}
		for k := 0; k < len(c03MutVals)+2; k++ {
			var v byte
			switch {
			case k < len(c03MutVals):
				v = c03MutVals[k]
			case k == len(c03MutVals):
				v = img[i] ^ 0x01
			default:
				v = img[i] ^ 0x80
			}
			if v == img[i] {
				continue
			}
			mut := clone(img)
			mut[i] = v
			total++
			var q rtp.Packet
			keep := clone(mut)
			if err := q.Unmarshal(mut); err != nil {
				continue
			}
			accepted++
			idx, val := i, v
			desc := func() string {
				return fmt.Sprintf("%s with byte %d replaced by %02x = %s", describeWire(w), idx, val, hx(keep))
			}
			if !bytes.Equal(mut, keep) {
				c.Failf("input-modified", "%s: Unmarshal changed its input", desc())
			}
			canonical := ref.CanonicalImage(keep)
			c03Reencode(c, &q, keep, canonical, desc)
		}
	}
	c.Ops(total)
	c.Cases(total)
	if c.Verbose() {
		c.Notef("image %s = %s: %d single-byte mutants, %d accepted", describeWire(w), hx(img), total, accepted)
	}
	if accepted > 0 {
		c.NonTrivial()
	}
	c.Outcome(fmt.Sprintf("accepted>0=%v", accepted > 0))
}

// c03FirstOctets: a well-formed image for every value of the first two header octets (version,
// P, X, CC, marker, payload type).
func c03FirstOctets(c *mc.Ctx) {
	b0 := c.Pick(256)
	for b1 := 0; b1 < 256; b1++ {
		_, w := c01FirstWire(b0, b1)
		c03Check(c, w.w)
	}
	c.Cases(255)
}
