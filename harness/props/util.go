// Package props holds one harness per property.
package props

import (
	"bytes"
	"fmt"
	"unsafe"

	"verif/mc"
)

// All is the registry of properties, filled by the init functions.
var All []mc.Property

func register(p mc.Property) { All = append(All, p) }

// fill returns n position-dependent bytes (no power-of-two period, so that an offset that
// wraps at 2^8 or 2^16 lands on different content).
func fill(n int, seed byte) []byte {
	b := make([]byte, n)
	for i := range b {
		b[i] = byte(i*7+(i>>8)*13+(i>>16)*29) + seed
	}
	return b
}

// overlap reports whether the backing arrays (up to capacity) of a and b share memory.
func overlap(a, b []byte) bool {
	if cap(a) == 0 || cap(b) == 0 {
		return false
	}
	a, b = a[:cap(a)], b[:cap(b)]
	pa := uintptr(unsafe.Pointer(&a[0]))
	pb := uintptr(unsafe.Pointer(&b[0]))
	return pa < pb+uintptr(len(b)) && pb < pa+uintptr(len(a))
}

// lenOverlap is overlap restricted to the visible lengths.
func lenOverlap(a, b []byte) bool {
	if len(a) == 0 || len(b) == 0 {
		return false
	}
	pa := uintptr(unsafe.Pointer(&a[0]))
	pb := uintptr(unsafe.Pointer(&b[0]))
	return pa < pb+uintptr(len(b)) && pb < pa+uintptr(len(a))
}

const guardByte = 0xC9

// guard returns a copy of b placed inside a larger array - 8 sentinel bytes before it and
// len(b)+8 behind it (room for a second copy), the copy's spare capacity reaching into the
// latter - and a function that reports whether every sentinel byte is still in place. A nil
// slice stays nil.
func guard(b []byte) ([]byte, func() bool) {
	if b == nil {
		return nil, func() bool { return true }
	}
	n := len(b)
	whole := make([]byte, 2*n+16)
	for i := range whole {
		whole[i] = guardByte
	}
	copy(whole[8:], b)
	return whole[8 : 8+n], func() bool {
		for i := 0; i < 8; i++ {
			if whole[i] != guardByte {
				return false
			}
		}
		for i := 8 + n; i < len(whole); i++ {
			if whole[i] != guardByte {
				return false
			}
		}
		return true
	}
}

func clone(b []byte) []byte {
	if b == nil {
		return nil
	}
	// exactly as much capacity as length: a read past the end of an input that happens to stay
	// inside spare capacity (b[2:5] of a 4-byte slice) must fail the way it would for a caller
	// whose slice ends there
	out := make([]byte, len(b))
	copy(out, b)
	return out[:len(b):len(b)]
}

func cloneAll(bs [][]byte) [][]byte {
	out := make([][]byte, len(bs))
	for i, b := range bs {
		out[i] = clone(b)
	}
	return out
}

func equalAll(a, b [][]byte) bool {
	if len(a) != len(b) {
		return false
	}
	for i := range a {
		if !bytes.Equal(a[i], b[i]) {
			return false
		}
	}
	return true
}

func concat(bs [][]byte) []byte {
	var out []byte
	for _, b := range bs {
		out = append(out, b...)
	}
	return out
}

func hx(b []byte) string {
	if b == nil {
		return "nil"
	}
	if len(b) > 48 {
		return fmt.Sprintf("%x…(%d bytes)", b[:48], len(b))
	}
	return fmt.Sprintf("%x", b)
}

func hxs(bs [][]byte) string {
	s := "["
	for i, b := range bs {
		if i > 0 {
			s += " "
		}
		s += hx(b)
	}
	return s + "]"
}

func scribble(b []byte) {
	for i := range b {
		b[i] = 0xEE
	}
}

func maxI(a, b int) int {
	if a > b {
		return a
	}
	return b
}
