package props

import (
	"bytes"
	"fmt"

	"github.com/pion/rtp/codecs"

	"verif/mc"
	"verif/ref"
)

func init() {
	register(mc.Property{
		ID:   "C10",
		Rule: "payloader side: one case = (MTU, StapA on/off, AVC on/off, 1-3 (thorough: 4) NAL units with type, NRI, size relative to the MTU and start-code length, position of the call boundary); decoder side: one case = an arrangement of up to 3 groups (single NAL / STAP-A of 1-3 units / FU-A train with chosen split points) written by the reference encoder; non-trivial = at least one unit is fragmented or aggregated",
		Assumptions: []string{
			"MTU in {3,4,5,6,7,8,16,17,100}; unit types {1,5,7,8,9,12} (+6,23 in short sequences); sizes {2,3,MTU-1,MTU,MTU+1,2MTU+1}; bodies contain no zero byte (Annex-B conformant: no start-code emulation, no trailing zero); a final type-1 unit is appended so that held-back parameter sets have a next unit; a separate scenario sweeps SPS/PPS sizes so that STAP-A(SPS,PPS) is one byte under, exactly at and one byte over every MTU 9..40",
			"the hold-back anomalies of H264Payloader for parameter sets that are not an SPS immediately followed by a PPS, and the silent drop of a STAP-A larger than the MTU, are listed known findings matched by an exact defect model of the hold-back state machine",
			"wide scenario: every NAL type 1-23 x NRI 0-3 alone and after an SPS/PPS pair; units of 300, 257*(MTU-2)+1 (more than 256 fragments), 70000 bytes for MTU {5,100,1200}; SPS/PPS of {6,255,256,257,700,32766} x {6,255,256,300,32765} bytes at MTU 1200 and 65535; all sequences of 5 (thorough: 6) units over {slice 2B, slice MTU+1, SPS+PPS pair, lone SPS, lone PPS} split over three calls",
			"unit bodies: EVERY body of 1-7 bytes (thorough: 8) over {00,01,03,FF} that is legal inside a NAL unit (no 00 00 00 / 00 00 01, no trailing 00) as a type-5 unit between two other units, 3- and 4-byte start codes, MTU {5,100}",
			"second instance: in the wide scenario every case also runs with an unrelated second H264Payloader (holding an SPS, fed fragmented units in between) and H264Packet (holding an unfinished FU-A unit) whose calls are interleaved with those of the instances under test",
			"runs of 60 calls on one payloader and one depacketizer, cycling through a pattern of 2, 3, 5 or 7 access units (SPS+PPS+IDR, a slice of MTU+1 bytes, a small slice, an AUD plus a slice, SPS+PPS alone, two small slices, a slice of 3*MTU bytes) for MTU {8,100,1200}, with parameter sets that differ from one access unit to the next or are repeated byte for byte",
			"decoder side: F bit 0, FU-A trains of 2-5 fragments with every split point of units of up to 8 bytes, also with an empty first, middle or last fragment",
		},
		Scenarios: []mc.Scenario{
			{Name: "payloader-to-depacketizer", Tiers: "qt", ShardDepth: 4, Run: c10Roundtrip},
			{Name: "stapa-at-the-mtu-boundary", Tiers: "qt", ShardDepth: 3, Run: c10StapABoundary},
			{Name: "all-types-large-units-long-sequences", Tiers: "qt", ShardDepth: 3, Run: c10Wide},
			{Name: "reference-encoder-to-depacketizer", Tiers: "qt", ShardDepth: 3, Run: c10Decoder},
			{Name: "unit-bodies-with-zero-and-one-bytes", Tiers: "qt", ShardDepth: 3, Run: c10Bodies},
			{Name: "runs-of-60-calls", Tiers: "qt", ShardDepth: 3, Run: c10Run60},
		},
	})
}

type c10Unit struct {
	typ, nri uint8
	size     int
	code     int
}

func c10Sizes(mtu int) []int {
	cands := []int{2, 3, mtu - 1, mtu, mtu + 1, 2*mtu + 1}
	var out []int
	for _, v := range cands {
		dup := false
		for _, o := range out {
			if o == v {
				dup = true
			}
		}
		if v >= 2 && !dup {
			out = append(out, v)
		}
	}
	return out
}

// c10Buggy is the defect model of the payloader's hold-back state machine: the latest
// SPS and the latest PPS are kept until both are present and another unit arrives; the
// pair is then sent as STAP-A(SPS,PPS) if that fits the MTU and silently dropped
// otherwise.
func c10Buggy(calls [][][]byte, mtu int) [][]byte {
	var sps, pps []byte
	var out [][]byte
	for _, call := range calls {
		for _, u := range call {
			switch t := u[0] & 0x1F; {
			case t == 9 || t == 12:
			case t == 7:
				sps = u
			case t == 8:
				pps = u
			default:
				if sps != nil && pps != nil {
					if 1+2+len(sps)+2+len(pps) <= mtu {
						out = append(out, sps, pps)
					}
					sps, pps = nil, nil
				}
				out = append(out, u)
			}
		}
	}
	return out
}

func c10Roundtrip(c *mc.Ctx) {
	mtu := mc.From(c, []int{3, 4, 5, 6, 7, 8, 16, 17, 100})
	disableStapA := c.Bool()
	maxUnits := 3
	if c.Thorough() {
		maxUnits = 4
	}
	n := 1 + c.Pick(maxUnits)
	types := []uint8{1, 5, 7, 8, 9, 12}
	if n <= 2 {
		types = []uint8{1, 5, 7, 8, 9, 12, 6, 23}
	}
	sizes := c10Sizes(mtu)
	if n == 4 {
		sizes = []int{2, mtu, mtu + 1}
		types = []uint8{1, 7, 8, 9}
	}
	if n == 3 && !c.Thorough() {
		types = []uint8{1, 7, 8, 9, 12}
		if len(sizes) > 4 {
			sizes = []int{2, mtu, mtu + 1, 2*mtu + 1}
		}
	}
	units := make([]c10Unit, n)
	for i := range units {
		units[i].typ = mc.From(c, types)
		units[i].size = mc.From(c, sizes)
		units[i].code = 3 + c.Pick(2)
		units[i].nri = []uint8{3, 0, 2, 1}[(int(units[i].typ)+i)%4]
	}
	split := c.Pick(n) // units before the call boundary (0: one call)
	avc := c.Bool()

	var raw [][]byte
	var codes []int
	for i, u := range units {
		raw = append(raw, ref.H264Unit(u.typ, u.nri, u.size, byte(i*41)))
		codes = append(codes, u.code)
	}
	raw = append(raw, ref.H264Unit(1, 2, 2, 0xEE))
	codes = append(codes, 4)
	c10Core(c, mtu, disableStapA, avc, raw, codes, split)
}

// c10StapABoundary: an SPS/PPS pair whose STAP-A is one byte under, exactly at, or one
// byte over the MTU, followed by a slice.
func c10StapABoundary(c *mc.Ctx) {
	mtu := 9 + c.Pick(32)
	maxA := mtu - 7
	if maxA > 12 {
		maxA = 12
	}
	a := 2 + c.Pick(maxA-1)
	delta := c.Pick(3) - 1
	b := mtu - 5 - a + delta
	if b < 2 {
		return
	}
	slice := mc.From(c, []int{2, mtu, mtu + 1})
	avc := c.Bool()
	split := c.Pick(3)
	raw := [][]byte{ref.H264Unit(7, 3, a, 1), ref.H264Unit(8, 3, b, 2), ref.H264Unit(5, 2, slice, 3), ref.H264Unit(1, 2, 2, 0xEE)}
	c10Core(c, mtu, false, avc, raw, []int{3, 4, 3, 4}, split)
}

func c10Core(c *mc.Ctx, mtu int, disableStapA, avc bool, raw [][]byte, codes []int, split int) {
	var calls [][][]byte
	var callCodes [][]int
	if split > 0 {
		calls = append(calls, raw[:split])
		callCodes = append(callCodes, codes[:split])
	}
	calls = append(calls, raw[split:])
	callCodes = append(callCodes, codes[split:])
	c10CoreCalls(c, mtu, disableStapA, avc, calls, callCodes)
}

// c10CoreCalls drives one payloader and one depacketizer through the given calls.
func c10CoreCalls(c *mc.Ctx, mtu int, disableStapA, avc bool, calls [][][]byte, callCodes [][]int) {
	desc := func() string {
		s := fmt.Sprintf("mtu=%d DisableStapA=%v AVC=%v calls:", mtu, disableStapA, avc)
		for ci, call := range calls {
			s += " ["
			for ui, u := range call {
				s += fmt.Sprintf(" type%d/nri%d/%dB/sc%d", u[0]&0x1F, u[0]>>5&3, len(u), callCodes[ci][ui])
			}
			s += " ]"
		}
		return s
	}
	if c.Verbose() {
		c.Notef("%s", desc())
	}

	p := &codecs.H264Payloader{DisableStapA: disableStapA}
	// a second, unrelated payloader and depacketizer are used in between when c10Decoy is set:
	// instances must not influence each other (state kept at package level would)
	var decoyP *codecs.H264Payloader
	var decoyD *codecs.H264Packet
	if c10Decoy {
		decoyP, decoyD = &codecs.H264Payloader{DisableStapA: disableStapA}, &codecs.H264Packet{IsAVC: !avc}
		decoyP.Payload(uint16(mtu), ref.AnnexB([][]byte{ref.H264Unit(7, 3, 3, 0x51)}, []int{4}))
	}
	var payloads [][]byte
	for ci, call := range calls {
		if decoyP != nil {
			decoyP.Payload(uint16(mtu), ref.AnnexB([][]byte{ref.H264Unit(8, 3, 3, 0x52), ref.H264Unit(5, 1, 2*mtu+3, 0x53), ref.H264Unit(7, 3, 4, 0x54)}, []int{3, 4, 3}))
		}
		keep := ref.AnnexB(call, callCodes[ci])
		in, intact := guard(keep)
		out := p.Payload(uint16(mtu), in)
		c.Ops(1)
		if !bytes.Equal(in, keep) || !intact() {
			c.Failf("input-modified", "%s: Payload changed its input", desc())
		}
		payloads = append(payloads, cloneAll(out)...)
		scribble(in) // the caller writes its next access unit into the same buffer
	}
	for i, pl := range payloads {
		if len(pl) == 0 || len(pl) > mtu {
			c.Failf("mtu", "%s: payload %d has %d bytes: %s", desc(), i, len(pl), hx(pl))
		}
	}

	var expected [][]byte
	for _, call := range calls {
		for _, u := range call {
			if t := u[0] & 0x1F; t != 9 && t != 12 {
				expected = append(expected, u)
			}
		}
	}

	shapes, err := ref.H264Reassemble(payloads)
	if err != nil {
		c.Failf("rfc6184-shape", "%s: payloads %s: %v", desc(), hxs(payloads), err)
	}
	var got [][]byte
	for _, s := range shapes {
		got = append(got, s.Unit)
	}
	finding := false
	if !equalAll(got, expected) {
		// classify: is this the listed hold-back behaviour?
		sig := c10Trigger(expected, mtu, disableStapA)
		if sig != "" && equalAll(got, c10Buggy(calls, mtu)) {
			c.Finding(sig, "%s: units delivered %s, input units %s", desc(), c10Types(got), c10Types(expected))
			finding = true
			expected = got
		} else {
			c.Failf("units-differ", "%s: reassembled units %s (%s), want %s (%s); payloads %s", desc(), c10Types(got), hxs(got), c10Types(expected), hxs(expected), hxs(payloads))
		}
	}
	// shape details
	heads := map[int]bool{}
	fragmented := false
	for _, s := range shapes {
		heads[s.First] = true
		t := s.Unit[0] & 0x1F
		if s.Fragments > 0 {
			fragmented = true
		}
		if !finding {
			if (t == 7 || t == 8) && !disableStapA && !s.InStapA {
				c.Failf("parameter-set-not-in-stapa", "%s: parameter set type %d was not sent inside a STAP-A although STAP-A is enabled; payloads %s", desc(), t, hxs(payloads))
			}
			if s.InStapA && disableStapA && (t == 7 || t == 8) {
				c.Failf("unexpected-stapa", "%s: parameter set type %d travelled inside a STAP-A although STAP-A is disabled; payloads %s", desc(), t, hxs(payloads))
			}
		}
	}
	hp := &codecs.H264Packet{}
	for i, pl := range payloads {
		if hp.IsPartitionHead(pl) != heads[i] {
			c.Failf("partition-head", "%s: IsPartitionHead(payload %d = %s) = %v, want %v", desc(), i, hx(pl), !heads[i], heads[i])
		}
	}
	c.Ops(len(payloads))

	// depacketizer
	d := &codecs.H264Packet{IsAVC: avc}
	var outAll []byte
	var held, heldSnap [][]byte
	for i, pl := range payloads {
		if decoyD != nil {
			_, _ = decoyD.Unmarshal([]byte{0x7C, 0x85, 0xD1, 0xD2, 0xD3}) // start of a unit that never ends
		}
		o, err := d.Unmarshal(pl)
		c.Ops(1)
		if err != nil {
			c.Failf("depacketizer-rejects", "%s: H264Packet.Unmarshal(payload %d = %s): %v", desc(), i, hx(pl), err)
		}
		outAll = append(outAll, o...)
		// the caller keeps what it was handed: a later call (on this or another instance) must
		// not change it (the inputs are not touched here)
		held, heldSnap = append(held, o), append(heldSnap, clone(o))
		for k := range held {
			if !bytes.Equal(held[k], heldSnap[k]) {
				c.Failf("earlier-result-changed", "%s: the bytes returned for payload %d (%s) read %s after payload %d was decoded", desc(), k, hx(heldSnap[k]), hx(held[k]), i)
			}
		}
	}
	if want := ref.H264Frame(expected, avc); !bytes.Equal(outAll, want) {
		c.Failf("depacketized-differs", "%s: H264Packet output %s, want %s; payloads %s", desc(), hx(outAll), hx(want), hxs(payloads))
	}
	if fragmented || len(payloads) != len(shapes) {
		c.NonTrivial()
	}
	c.Outcome(fmt.Sprintf("units=%d payloads=%d frag=%v finding=%v", len(shapes), minI(len(payloads), 6), fragmented, finding))
}

func c10Types(us [][]byte) string {
	s := "["
	for i, u := range us {
		if i > 0 {
			s += " "
		}
		s += fmt.Sprintf("t%d:%dB", u[0]&0x1F, len(u))
	}
	return s + "]"
}

// c10Trigger names the listed finding an input falls under, or "".
func c10Trigger(expected [][]byte, mtu int, disableStapA bool) string {
	if disableStapA {
		return ""
	}
	over := false
	for i := 0; i < len(expected); i++ {
		t := expected[i][0] & 0x1F
		switch t {
		case 7:
			if i+2 >= len(expected) || expected[i+1][0]&0x1F != 8 {
				return "sps-pps-holdback" // SPS without a PPS right behind it and a unit after the pair
			}
			if nt := expected[i+2][0] & 0x1F; nt == 7 || nt == 8 {
				// a pair directly followed by another parameter set: the pair is held past it
				return "sps-pps-holdback"
			}
			if 1+2+len(expected[i])+2+len(expected[i+1]) > mtu {
				over = true
			}
			i++ // the PPS of the pair
		case 8:
			return "sps-pps-holdback" // PPS that does not follow an SPS
		}
	}
	if over {
		return "stapa-over-mtu-dropped"
	}
	return ""
}

// ---- decoder side ------------------------------------------------------------------

type c10Group struct {
	payloads [][]byte
	units    [][]byte
	kind     string
}

func c10Group_(c *mc.Ctx, reduced bool, idx int) c10Group {
	kind := c.Pick(3)
	mkUnit := func(seed int) []byte {
		types := []uint8{1, 5, 7, 8, 23}
		sizes := []int{2, 3, 5, 8}
		if reduced {
			types, sizes = []uint8{1, 7}, []int{2, 5}
		}
		t := mc.From(c, types)
		sz := mc.From(c, sizes)
		return ref.H264Unit(t, uint8((int(t)+seed)%4), sz, byte(idx*50+seed*13))
	}
	switch kind {
	case 0:
		u := mkUnit(0)
		return c10Group{payloads: [][]byte{u}, units: [][]byte{u}, kind: "single"}
	case 1:
		n := 1 + c.Pick(3)
		if reduced {
			n = 1 + c.Pick(2)
		}
		var us [][]byte
		for i := 0; i < n; i++ {
			types := []uint8{7, 8, 1}
			sizes := []int{2, 5}
			t := mc.From(c, types)
			sz := mc.From(c, sizes)
			us = append(us, ref.H264Unit(t, uint8(i%4), sz, byte(idx*50+i*17)))
		}
		return c10Group{payloads: [][]byte{ref.H264StapAPayload(us)}, units: us, kind: fmt.Sprintf("stapa%d", n)}
	default:
		types := []uint8{1, 5, 7}
		sizes := []int{3, 5, 8}
		if reduced {
			types, sizes = []uint8{5}, []int{3, 5}
		}
		t := mc.From(c, types)
		sz := mc.From(c, sizes)
		u := ref.H264Unit(t, uint8((int(t)+1)%4), sz, byte(idx*50+99))
		body := sz - 1
		// every set of 1-3 cut points
		var cuts []int
		for pos := 1; pos < body; pos++ {
			if len(cuts) < 3 && c.Bool() {
				cuts = append(cuts, pos)
			}
		}
		if len(cuts) == 0 {
			cuts = []int{1} // at least two fragments
		}
		// RFC 6184 5.8: an FU payload MAY be empty - an encoder that cuts fixed-size chunks
		// produces one at the start (cut at 0), in the middle (a repeated cut) or at the end
		switch c.Pick(4) {
		case 1:
			cuts = append([]int{0}, cuts...)
		case 2:
			cuts = append(cuts, cuts[len(cuts)-1])
		case 3:
			cuts = append(cuts, body)
		}
		return c10Group{payloads: ref.H264Fragment(u, cuts), units: [][]byte{u}, kind: fmt.Sprintf("fua%d", len(cuts)+1)}
	}
}

func c10Decoder(c *mc.Ctx) {
	avc := c.Bool()
	n := 1 + c.Pick(3)
	reduced := n == 3 && !c.Thorough()
	var payloads, units [][]byte
	var heads []bool
	kinds := ""
	for g := 0; g < n; g++ {
		grp := c10Group_(c, reduced || (n == 3), g)
		for i := range grp.payloads {
			heads = append(heads, i == 0)
		}
		payloads = append(payloads, grp.payloads...)
		units = append(units, grp.units...)
		kinds += grp.kind + " "
	}
	if c.Verbose() {
		c.Notef("AVC=%v groups: %s payloads %s", avc, kinds, hxs(payloads))
	}
	// the reference encoder and reassembler agree (sanity of the model)
	shapes, err := ref.H264Reassemble(payloads)
	if err != nil || len(shapes) != len(units) {
		panic(mc.EngineError{Msg: fmt.Sprintf("h264ref inconsistent: %v", err)})
	}
	d := &codecs.H264Packet{IsAVC: avc}
	var outAll []byte
	for i, pl := range payloads {
		in := clone(pl)
		o, err := d.Unmarshal(in)
		c.Ops(2)
		if err != nil {
			c.Failf("depacketizer-rejects", "groups %s: H264Packet.Unmarshal(payload %d = %s): %v", kinds, i, hx(pl), err)
		}
		outAll = append(outAll, o...)
		if !bytes.Equal(in, pl) {
			c.Failf("input-modified", "groups %s: Unmarshal changed payload %d", kinds, i)
		}
		if d.IsPartitionHead(pl) != heads[i] {
			c.Failf("partition-head", "groups %s: IsPartitionHead(payload %d = %s) = %v", kinds, i, hx(pl), !heads[i])
		}
	}
	if want := ref.H264Frame(units, avc); !bytes.Equal(outAll, want) {
		c.Failf("depacketized-differs", "AVC=%v groups %s payloads %s: output %s, want %s", avc, kinds, hxs(payloads), hx(outAll), hx(want))
	}
	if len(payloads) != len(units) {
		c.NonTrivial()
	}
	c.Outcome(kinds)
}

// c10Wide: dimensions the product scenario keeps small, taken one at a time.
// c10Decoy makes c10Core interleave the calls of an unrelated second payloader and depacketizer.
var c10Decoy bool

func c10Wide(c *mc.Ctx) {
	c10Decoy = c.Bool()
	defer func() { c10Decoy = false }()
	kind := c.Pick(4)
	avc := c.Bool()
	disableStapA := c.Bool()
	switch kind {
	case 3: // large parameter sets: STAP-A size fields beyond 8 and 16 bits
		mtu := mc.From(c, []int{1200, 65535})
		a := mc.From(c, []int{6, 255, 256, 257, 700, 32766})
		b := mc.From(c, []int{6, 255, 256, 300, 32765})
		raw := [][]byte{ref.H264Unit(7, 3, a, 1), ref.H264Unit(8, 3, b, 2), ref.H264Unit(5, 2, 20, 3), ref.H264Unit(1, 2, 2, 0xEE)}
		c10Core(c, mtu, disableStapA, avc, raw, []int{4, 3, 4, 3}, c.Pick(3))
	case 0: // every type and NRI
		typ := uint8(1 + c.Pick(23))
		nri := uint8(c.Pick(4))
		mtu := mc.From(c, []int{3, 8, 100})
		size := mc.From(c, []int{2, mtu, mtu + 1, 3*mtu + 2})
		raw := [][]byte{ref.H264Unit(typ, nri, size, 5)}
		codes := []int{3 + c.Pick(2)}
		if c.Bool() && typ != 7 && typ != 8 {
			raw = [][]byte{ref.H264Unit(7, 3, 4, 1), ref.H264Unit(8, 3, 3, 2), raw[0]}
			codes = []int{4, 3, codes[0]}
		}
		raw = append(raw, ref.H264Unit(1, 2, 2, 0xEE))
		codes = append(codes, 4)
		c10Core(c, mtu, disableStapA, avc, raw, codes, 0)
	case 1: // large units: more than 256 fragments, more than 65535 bytes
		mtu := mc.From(c, []int{5, 100, 1200})
		size := mc.From(c, []int{300, 257*(mtu-2) + 1, 70000})
		typ := mc.From(c, []uint8{1, 5, 7})
		if typ == 7 && !disableStapA {
			return
		}
		raw := [][]byte{ref.H264Unit(typ, 2, size, 9), ref.H264Unit(1, 2, 2, 0xEE)}
		c10Core(c, mtu, disableStapA, avc, raw, []int{4, 3}, c.Pick(2))
	case 2: // longer sequences
		mtu := mc.From(c, []int{6, 40})
		n := 5 + c.Pick(2)
		if !c.Thorough() {
			n = 5
		}
		var raw [][]byte
		var codes []int
		for i := 0; i < n; i++ {
			switch c.Pick(5) {
			case 3: // a parameter set on its own: the hold-back state is left half filled
				raw = append(raw, ref.H264Unit(7, 3, 3, byte(i)))
				codes = append(codes, 4)
			case 4:
				raw = append(raw, ref.H264Unit(8, 3, 2, byte(i)))
				codes = append(codes, 3)
			case 0:
				raw = append(raw, ref.H264Unit(1, 2, 2, byte(i)))
				codes = append(codes, 3)
			case 1:
				raw = append(raw, ref.H264Unit(5, 3, mtu+1, byte(i)))
				codes = append(codes, 4)
			case 2:
				raw = append(raw, ref.H264Unit(7, 3, 3, byte(i)), ref.H264Unit(8, 3, 2, byte(i)))
				codes = append(codes, 4, 3)
			}
		}
		raw = append(raw, ref.H264Unit(1, 2, 2, 0xEE))
		codes = append(codes, 4)
		c10Core(c, mtu, disableStapA, avc, raw, codes, c.Pick(3)*2)
	}
}

// c10Bodies: NAL unit bodies made of the bytes the start-code scanner looks at.
func c10Bodies(c *mc.Ctx) {
	maxLen := 7
	if c.Thorough() {
		maxLen = 8
	}
	n := 1 + c.Pick(maxLen)
	sym := []byte{0x00, 0x01, 0x03, 0xFF}
	body := make([]byte, n)
	for i := range body {
		body[i] = mc.From(c, sym)
		if i >= 2 && body[i-2] == 0 && body[i-1] == 0 && body[i] <= 1 {
			c.Prune() // start-code emulation: not a legal NAL unit
		}
	}
	if body[n-1] == 0 {
		return // a trailing zero belongs to the next start code
	}
	mtu := mc.From(c, []int{5, 100})
	code := 3 + c.Pick(2)
	unit := append([]byte{0x65}, body...)
	raw := [][]byte{ref.H264Unit(1, 2, 3, 7), unit, ref.H264Unit(1, 2, 2, 0xEE)}
	c10Core(c, mtu, false, c.Bool(), raw, []int{4, code, 7 - code}, 0)
}

// c10Run60: 60 access units through one payloader and one depacketizer, cycling through a
// pattern of 2, 3, 5 or 7 different ones: state that only matters after many calls.
func c10Run60(c *mc.Ctx) {
	mtu := mc.From(c, []int{8, 100, 1200})
	disableStapA := c.Bool()
	avc := c.Bool()
	period := mc.From(c, []int{2, 3, 5, 7})
	// what an encoder does: every key frame repeats the same parameter sets, byte for byte
	sameSets := c.Bool()
	u := func(t uint8, n int, seed int) []byte {
		if sameSets && (t == 7 || t == 8) {
			seed = 1
		}
		return ref.H264Unit(t, uint8(1+seed%3), n, byte(seed*13))
	}
	var calls [][][]byte
	var codes [][]int
	for i := 0; i < 60; i++ {
		var au [][]byte
		switch i % period {
		case 0:
			au = [][]byte{u(7, 5, i), u(8, 4, i), u(5, 9, i)}
		case 1:
			au = [][]byte{u(1, mtu+1, i)}
		case 2:
			au = [][]byte{u(1, 3, i)}
		case 3:
			au = [][]byte{u(9, 2, i), u(1, 6, i)}
		case 4:
			au = [][]byte{u(7, 6, i), u(8, 3, i)}
		case 5:
			au = [][]byte{u(1, 2, i), u(1, 4, i)}
		default:
			au = [][]byte{u(5, 3*mtu, i)}
		}
		cc := make([]int, len(au))
		for k := range cc {
			cc[k] = 3 + (i+k)%2
		}
		calls = append(calls, au)
		codes = append(codes, cc)
	}
	// a last unit releases parameter sets that are still held back
	calls = append(calls, [][]byte{ref.H264Unit(1, 2, 2, 0xEE)})
	codes = append(codes, []int{4})
	c10CoreCalls(c, mtu, disableStapA, avc, calls, codes)
}
