package props

import (
	"bytes"
	"fmt"

	"github.com/pion/rtp"

	"verif/mc"
	"verif/ref"
)

func init() {
	register(mc.Property{
		ID:   "C20",
		Rule: "one case = (packet of the C01 space, source: built through the API or decoded from its wire image, side that is mutated, one mutation); non-trivial = the packet has at least one of payload / CSRC / extension element",
		Assumptions: []string{
			"mutations: overwrite every payload byte; overwrite every CSRC entry; overwrite every byte of one extension value through the slice GetExtension returns; SetExtension of an existing id; SetExtension of a new id; DelExtension of the first / last id; overwrite of the decoded-from buffer; append within capacity to payload and CSRC; SetExtension of different new ids on both sides; each also from the start state in which every extension was deleted before cloning (empty list with spare capacity)",
			"with the mutation that changes both sides, the original may be a receiver that decoded another packet (three extensions, four CSRC entries) before; decoded packets whose extension block repeats an id (the decoder keeps both elements): one-byte and two-byte blocks of 2-4 elements over ids {1,2} x value lengths {1,2}; the clone is compared with the original directly (ids, values, serialisation) and then changed",
			"packet space: C01 quick space (quick) / C01 thorough space (thorough), plus the many-element / large packets of C01",
		},
		Scenarios: []mc.Scenario{
			// the cheap scenario first: what it leaves of its share of the budget goes to the other
			{Name: "clones-of-decoded-packets-with-repeated-ids", Tiers: "qt", ShardDepth: 3, Run: c20Repeated},
			{Name: "clone-then-mutate", Tiers: "qt", ShardDepth: 4, Run: c20Run},
		},
	})
}

func c01Class(w *ref.Wire) string {
	kind := "none"
	if w.X {
		kind = fmt.Sprintf("%#04x/%d", w.Profile, len(w.Elements()))
	}
	return fmt.Sprintf("ext=%s pad=%v cc=%d", kind, w.PadSize > 0, len(w.CSRC))
}

type c20Snap struct {
	bytes []byte
	err   error
}

func c20Run(c *mc.Ctx) {
	level := spaceQuick
	if c.Thorough() {
		level = spaceThorough
	}
	fromWire := c.Bool()
	mutateClone := c.Bool()
	mut := c.Pick(11)
	p, w := genPacket(c, level, fixedPresets[0])
	// start state "extension list emptied but still allocated": delete every element first;
	// or "list with spare capacity": delete only the first element
	emptied := 0
	if w.X && w.Is8285() && len(w.Elements()) > 0 && (mut == 6 || mut == 7 || mut == 10) {
		// (only with the mutations that add or delete extensions: spare capacity of the list
		// is what these start states are about)
		emptied = c.Pick(3)
	}
	if emptied == 2 && len(w.Elements()) >= 2 {
		first := w.Elements()[0]
		if err := p.DelExtension(first.ID); err != nil {
			c.Failf("delextension-refused", "%s: DelExtension(%d): %v", describeWire(w), first.ID, err)
		}
		var kept []ref.Item
		dropped := false
		for _, it := range w.Items {
			if !dropped && it.Kind == ref.ItemElem && it.Elem.ID == first.ID {
				dropped = true
				continue
			}
			kept = append(kept, it)
		}
		w.Items = kept
	}
	if emptied == 1 {
		for _, e := range w.Elements() {
			if err := p.DelExtension(e.ID); err != nil {
				c.Failf("delextension-refused", "%s: DelExtension(%d): %v", describeWire(w), e.ID, err)
			}
		}
		w.Items = nil
		// whether a header whose last element was deleted still has the X bit is not said
		// anywhere: the original is taken as it is and the clone must equal it
		w.X = p.Header.Extension
	}
	var wire []byte
	if fromWire {
		b, err := p.Marshal()
		if err != nil {
			c.Failf("marshal-failed", "%s: %v", describeWire(w), err)
		}
		wire = b
		q := &rtp.Packet{}
		if mut == 10 && c.Bool() {
			// a receiver that was used before: it decoded a packet with three extensions and four
			// CSRC entries first (what it keeps of them - spare capacity - must not tie the clone
			// to the original)
			_ = q.Unmarshal([]byte{0x94, 0x60, 0, 9, 0, 0, 0, 8, 0, 0, 0, 7, 0, 0, 0, 1, 0, 0, 0, 2, 0, 0, 0, 3, 0, 0, 0, 4, 0xBE, 0xDE, 0, 2, 0x10, 0xD1, 0x20, 0xD2, 0x30, 0xD3, 0, 0, 0x77})
		}
		if err := q.Unmarshal(wire); err != nil {
			c.Failf("unmarshal-own-output", "%s: %v", describeWire(w), err)
		}
		p = q
	}
	cl := p.Clone()
	hcl := p.Header.Clone()
	c.Ops(2)
	if d := comparePacket(cl, w); d != "" {
		c.Failf("clone-differs", "%s: Packet.Clone(): %s", describeWire(w), d)
	}
	if d := compareHeader(&hcl, w); d != "" {
		c.Failf("clone-differs", "%s: Header.Clone(): %s", describeWire(w), d)
	}
	// a clone must not even share the extension list
	victim, other := p, cl
	if mutateClone {
		victim, other = cl, p
	}
	hOtherBefore, _ := hcl.Marshal()
	otherBefore, otherErr := other.Marshal()
	elems := w.Elements()
	name := ""
	switch mut {
	case 0:
		name = "overwrite payload bytes"
		scribble(victim.Payload)
		if cap(victim.Payload) > len(victim.Payload) {
			_ = append(victim.Payload, 0xEE)
		}
	case 1:
		name = "overwrite CSRC entries"
		for i := range victim.CSRC {
			victim.CSRC[i] = 0xEEEEEEEE
		}
		if cap(victim.CSRC) > len(victim.CSRC) {
			_ = append(victim.CSRC, 0xEEEEEEEE)
		}
	case 2, 3, 4:
		k := mut - 2
		if k >= len(elems) {
			return // no such element: not a case
		}
		name = fmt.Sprintf("overwrite value of extension id %d in place", elems[k].ID)
		scribble(victim.GetExtension(elems[k].ID))
	case 5:
		if len(elems) == 0 {
			return
		}
		name = fmt.Sprintf("SetExtension(%d) existing", elems[0].ID)
		nv := make([]byte, len(elems[0].Val))
		scribble(nv)
		if len(nv) == 0 {
			nv = []byte{0xEE}
			if w.Profile != ref.ProfileTwoByte {
				return
			}
		}
		if err := victim.SetExtension(elems[0].ID, nv); err != nil {
			c.Failf("setextension-refused", "%s: SetExtension(%d): %v", describeWire(w), elems[0].ID, err)
		}
	case 6:
		if !w.X || !w.Is8285() {
			return
		}
		name = "SetExtension(3) new id"
		if err := victim.SetExtension(3, []byte{0xEE}); err != nil {
			c.Failf("setextension-refused", "%s: SetExtension(3): %v", describeWire(w), err)
		}
	case 7, 8:
		if len(elems) == 0 || (mut == 8 && len(elems) < 2) {
			return
		}
		id := elems[0].ID
		if mut == 8 {
			id = elems[len(elems)-1].ID
		}
		if !w.Is8285() {
			return // deleting the only legacy element leaves a header that cannot be encoded (C05)
		}
		name = fmt.Sprintf("DelExtension(%d)", id)
		if err := victim.DelExtension(id); err != nil {
			c.Failf("delextension-refused", "%s: DelExtension(%d): %v", describeWire(w), id, err)
		}
	case 9:
		if !fromWire || mutateClone {
			return
		}
		name = "overwrite the buffer the original was decoded from"
		scribble(wire)
	case 10:
		// both sides add an extension of their own: neither may see the other's
		if w.X && (!w.Is8285() || len(elems) > 2) {
			return
		}
		name = "SetExtension(3) on one side, then SetExtension(4) on the other"
		if err := victim.SetExtension(3, []byte{0xEE}); err != nil {
			c.Failf("setextension-refused", "%s: SetExtension(3): %v", describeWire(w), err)
		}
		if err := other.SetExtension(4, []byte{0xDD}); err != nil {
			c.Failf("setextension-refused", "%s: SetExtension(4): %v", describeWire(w), err)
		}
		if got := victim.GetExtension(3); !bytes.Equal(got, []byte{0xEE}) || victim.GetExtension(4) != nil {
			c.Failf("shared-memory", "%s (decoded from wire: %v): after SetExtension(3) on one side and SetExtension(4) on the other, the first reports id 3 = %s, id 4 = %s, ids %v", describeWire(w), fromWire, hx(got), hx(victim.GetExtension(4)), victim.GetExtensionIDs())
		}
		if got := other.GetExtension(4); !bytes.Equal(got, []byte{0xDD}) || other.GetExtension(3) != nil {
			c.Failf("shared-memory", "%s: the second side reports id 4 = %s, id 3 = %s", describeWire(w), hx(got), hx(other.GetExtension(3)))
		}
		c.NonTrivial()
		c.Outcome("mut=10")
		return
	}
	c.Ops(3)
	if c.Verbose() {
		c.Notef("%s; fromWire=%v; mutate %s: %s", describeWire(w), fromWire, map[bool]string{false: "original", true: "clone"}[mutateClone], name)
	}
	side := "clone"
	if mutateClone {
		side = "original"
	}
	if !(mut == 9) || true {
		if mut == 9 {
			// the original legitimately aliases its input; only the clones are examined
			other, side = cl, "clone"
		}
		if d := comparePacket(other, w); d != "" {
			c.Failf("shared-memory", "%s (decoded from wire: %v): after '%s' on the other side the %s reports: %s", describeWire(w), fromWire, name, side, d)
		}
		after, err := other.Marshal()
		if (err == nil) != (otherErr == nil) || !bytes.Equal(after, otherBefore) {
			c.Failf("shared-memory", "%s: after '%s' on the other side the %s serialises differently", describeWire(w), name, side)
		}
	}
	if !mutateClone {
		// Header.Clone() taken from the original must be independent as well
		if d := compareHeader(&hcl, w); d != "" {
			c.Failf("shared-memory", "%s (decoded from wire: %v): after '%s' on the original Header.Clone() reports: %s", describeWire(w), fromWire, name, d)
		}
		hAfter, _ := hcl.Marshal()
		if !bytes.Equal(hAfter, hOtherBefore) {
			c.Failf("shared-memory", "%s: after '%s' on the original Header.Clone() serialises differently", describeWire(w), name)
		}
	}
	if len(w.Payload) > 0 || len(w.CSRC) > 0 || len(elems) > 0 {
		c.NonTrivial()
	}
	c.Outcome(fmt.Sprintf("mut=%d", mut))
}

// c20Repeated: packets as the decoder delivers them when a block repeats an id. No model says
// what such a packet "is": the clone is compared with the original itself.
func c20Repeated(c *mc.Ctx) {
	twoByte := c.Bool()
	n := 2 + c.Pick(3)
	var body []byte
	desc := ""
	for i := 0; i < n; i++ {
		id := uint8(1 + c.Pick(2))
		l := 1 + c.Pick(2)
		val := fill(l, byte(0x10*(i+1)))
		if twoByte {
			body = append(body, id, byte(l))
		} else {
			body = append(body, id<<4|byte(l-1))
		}
		body = append(body, val...)
		desc += fmt.Sprintf(" %d:%s", id, hx(val))
	}
	for len(body)%4 != 0 {
		body = append(body, 0)
	}
	img := []byte{0x90, 0x60, 0, 1, 0, 0, 0, 2, 0, 0, 0, 3, 0xBE, 0xDE, 0, byte(len(body) / 4)}
	if twoByte {
		img[12], img[13] = 0x10, 0x00
	}
	img = append(append(img, body...), 0xAA, 0xBB)
	if c.Verbose() {
		c.Notef("decoded packet with elements%s (two-byte form %v)", desc, twoByte)
	}
	p := &rtp.Packet{}
	if err := p.Unmarshal(clone(img)); err != nil {
		return // not this property's business
	}
	want, err := p.Marshal()
	if err != nil {
		return
	}
	want = clone(want)
	ids := p.GetExtensionIDs()
	var vals [][]byte
	for _, id := range ids {
		vals = append(vals, clone(p.GetExtension(id)))
	}
	check := func(what string, q interface {
		GetExtensionIDs() []uint8
		GetExtension(uint8) []byte
	}) {
		qi := q.GetExtensionIDs()
		if !bytes.Equal(qi, ids) {
			c.Failf("clone-differs", "elements%s: %s reports ids %v, the original %v", desc, what, qi, ids)
		}
		for k, id := range ids {
			if !bytes.Equal(q.GetExtension(id), vals[k]) {
				c.Failf("clone-differs", "elements%s: %s reports %s for id %d, the original %s", desc, what, hx(q.GetExtension(id)), id, hx(vals[k]))
			}
		}
	}
	cl := p.Clone()
	hcl := p.Header.Clone()
	c.Ops(2)
	check("Packet.Clone()", cl)
	check("Header.Clone()", &hcl)
	if b, err := cl.Marshal(); err != nil || !bytes.Equal(b, want) {
		c.Failf("clone-differs", "elements%s: the clone serialises to %s (%v), the original to %s", desc, hx(b), err, hx(want))
	}
	if hb, err := hcl.Marshal(); err != nil || !bytes.Equal(hb, want[:len(hb)]) {
		c.Failf("clone-differs", "elements%s: the header clone serialises to %s (%v), the original to %s", desc, hx(hb), err, hx(want))
	}
	// changing the clone leaves the original alone
	_ = cl.SetExtension(1, []byte{0xEE})
	_ = cl.DelExtension(2)
	scribble(cl.Payload)
	if b, err := p.Marshal(); err != nil || !bytes.Equal(b, want) {
		c.Failf("shared-memory", "elements%s: after changing the clone the original serialises to %s (%v), it was %s", desc, hx(b), err, hx(want))
	}
	c.NonTrivial()
	c.Outcome(fmt.Sprintf("two-byte=%v n=%d", twoByte, n))
}
