package props

import (
	"bytes"
	"fmt"

	"github.com/pion/rtp/codecs"
	"github.com/pion/rtp/codecs/av1/frame"
	"github.com/pion/rtp/codecs/av1/obu"
	pkgframe "github.com/pion/rtp/pkg/frame"
	pkgobu "github.com/pion/rtp/pkg/obu"

	"verif/mc"
	"verif/ref"
)

func init() {
	register(mc.Property{
		ID:   "C13",
		Rule: "one case = (MTU, OBU sequence: type, extension ids, payload size relative to the MTU, size field on all or omitted on the last); packetized by AV1Payloader, checked by the reference aggregation-rule checker, reassembled through AV1Depacketizer and through AV1Packet + frame.AV1; complete sub-domains (LEB128, OBU headers) are swept inside executions; non-trivial = more than one packet or more than one element in a packet",
		Assumptions: []string{
			"sequences of 1-2 OBUs over the full alphabets (types {0,1,2,3,4,5,6,8,15}, extension none/(0,0)/(1,0)/(0,1)/(2,1), 8-13 sizes), 3 OBUs over 4 types x 3 extensions x 4 sizes, 4 OBUs over 3x3x3 (thorough: 5 OBUs over 3x2x2); MTU {2,3,4,5,6,8,16,130,131,200}",
			"every ordered pair of the 32 layer ids (8 temporal x 4 spatial), alone and followed by an OBU of the first layer; layer boundaries: all sequences of 3-5 OBUs over {frame of layer (0,0) / (1,0) / (0,1) / without extension, temporal delimiter and tile list with and without extension, sequence header} at MTU {5,200}; wide scenario: all sequences of 6-8 OBUs over {frame 1B, frame MTU-1 B, temporal delimiter, frame with another layer id} for MTU {4,9,40}; every OBU type 0-15 x every extension (t,s) with t in 0..7, s in 0..3 alone and after a frame; input size fields padded to non-minimal LEB128; 64-300 one- and two-byte OBUs in one call (more than 256 elements in a packet); OBUs of 16382/16383/16384/70000 bytes (3-byte LEB128 sizes, more than 256 fragments) for MTU {5,200,20000,65535} and of 2^21-2 .. 2^21+1 bytes (4-byte LEB128 sizes) for MTU {20000,65535}",
			"reserved header bits (obu_reserved_1bit and the three reserved bits of the extension header) are part of the OBU and must come back as sent: all sequences of 1-3 OBUs over type {1,6} x extension none/(1,0) x size {0,1,5,MTU+3} x reserved bits {none, header bit, extension bits, all} at MTU {5,16,200}",
			"OBU payload bytes are position dependent; OBU contents are not parsed by the RTP layer",
			"LEB128: all 2^32 values in the thorough tier; quick: 4096 values on each side of every 7-bit boundary and a 2^16-stride sweep",
		},
		Scenarios: []mc.Scenario{
			// the cheap scenarios first: what they leave of their share of the budget goes to the others
			{Name: "leb128", Tiers: "qt", ShardDepth: 1, Run: c13Leb},
			{Name: "obu-header-all-byte-pairs", Tiers: "qt", ShardDepth: 1, Run: c13Header},
			{Name: "reserved-header-bits", Tiers: "qt", ShardDepth: 2, Run: c13Reserved},
			{Name: "long-sequences-and-large-obus", Tiers: "qt", ShardDepth: 3, Run: c13Wide},
			{Name: "payloader-depacketizer-roundtrip", Tiers: "qt", ShardDepth: 4, Run: c13Roundtrip},
		},
	})
}

type c13Ext struct {
	has  bool
	t, s uint8
}

var c13Exts = []c13Ext{{false, 0, 0}, {true, 0, 0}, {true, 1, 0}, {true, 0, 1}, {true, 2, 1}}

func c13Sizes(mtu int, k int) []int {
	cands := []int{0, 1, 2, mtu - 3, mtu - 2, mtu - 1, mtu, mtu + 1, 2 * mtu, 2*mtu - 5, 2*mtu - 4, 2*mtu - 3, 126, 127, 128, 129}
	if k == 1 {
		cands = []int{0, 1, mtu - 2, 2*mtu - 4, 2*mtu + 1}
	} else if k >= 2 {
		cands = []int{0, mtu - 2, mtu + 1}
		if k >= 3 {
			cands = []int{1, mtu}
		}
	}
	var out []int
	for _, v := range cands {
		dup := false
		for _, o := range out {
			if o == v {
				dup = true
			}
		}
		if v >= 0 && !dup {
			out = append(out, v)
		}
	}
	return out
}

func c13Roundtrip(c *mc.Ctx) {
	mtu := mc.From(c, []int{2, 3, 4, 5, 6, 8, 16, 130, 131, 200})
	maxN := 4
	if c.Thorough() {
		maxN = 5
	}
	n := 1 + c.Pick(maxN)
	types := []uint8{0, 1, 2, 3, 4, 5, 6, 8, 15}
	exts := c13Exts
	level := 0
	switch n {
	case 3:
		types, exts, level = []uint8{1, 2, 6, 15}, c13Exts[:3], 1
	case 4:
		types, exts, level = []uint8{1, 2, 6}, []c13Ext{c13Exts[0], c13Exts[2], c13Exts[4]}, 2
	case 5:
		types, exts, level = []uint8{2, 6, 1}, []c13Ext{c13Exts[2], c13Exts[4]}, 3
	}
	sizes := c13Sizes(mtu, level)
	obus := make([]ref.OBU, n)
	for i := range obus {
		e := mc.From(c, exts)
		obus[i] = ref.OBU{Type: mc.From(c, types), HasExt: e.has, TID: e.t, SID: e.s, Payload: fill(mc.From(c, sizes), byte(i*29+3))}
	}
	omitLast := c.Bool()
	c13Run(c, mtu, obus, omitLast)
}

func c13Describe(mtu int, obus []ref.OBU, omitLast bool) string {
	s := fmt.Sprintf("mtu=%d size-field-omitted-on-last=%v OBUs:", mtu, omitLast)
	for _, o := range obus {
		e := ""
		if o.HasExt {
			e = fmt.Sprintf("(t%d,s%d)", o.TID, o.SID)
		}
		s += fmt.Sprintf(" type%d%s/%dB", o.Type, e, len(o.Payload))
	}
	return s
}

func c13Run(c *mc.Ctx, mtu int, obus []ref.OBU, omitLast bool) {
	c13RunBytes(c, mtu, obus, ref.AV1Stream(obus, omitLast), c13Describe(mtu, obus, omitLast))
}

// c13RunBytes packetizes the serialised stream in (which stands for obus) and checks it.
func c13RunBytes(c *mc.Ctx, mtu int, obus []ref.OBU, in []byte, what string) {
	keep := in
	in, intact := guard(keep)
	desc := func() string { return what }
	payloads := (&codecs.AV1Payloader{}).Payload(uint16(mtu), in)
	c.Ops(1)
	if c.Verbose() {
		c.Notef("%s -> %s", desc(), hxs(payloads))
	}
	if !bytes.Equal(in, keep) || !intact() {
		c.Failf("input-modified", "%s: Payload changed its input", desc())
	}
	var expected []ref.OBU
	for _, o := range obus {
		if o.Type != 2 && o.Type != 8 {
			expected = append(expected, o)
		}
	}
	// (iii) aggregation rules
	got, err := ref.AV1CheckTrain(payloads, mtu)
	if err != nil {
		c.Failf("aggregation-rule", "%s: payloads %s: %v", desc(), hxs(payloads), err)
	}
	if len(got) != len(expected) {
		c.Failf("obus-differ", "%s: payloads %s carry %d OBUs %s, want %d", desc(), hxs(payloads), len(got), hxs(got), len(expected))
	}
	for i := range expected {
		if !bytes.Equal(got[i], expected[i].Bytes(false)) {
			c.Failf("obus-differ", "%s: transmitted OBU %d = %s, want %s", desc(), i, hx(got[i]), hx(expected[i].Bytes(false)))
		}
	}
	// (i) AV1Depacketizer
	var d codecs.AV1Depacketizer
	var decoyD *codecs.AV1Depacketizer
	var decoyF *frame.AV1
	if c13Decoy {
		// an unrelated second depacketizer / assembler holding an unfinished fragment
		decoyD, decoyF = &codecs.AV1Depacketizer{}, &frame.AV1{}
	}
	var out []byte
	for i, p := range payloads {
		if decoyD != nil {
			_, _ = decoyD.Unmarshal([]byte{0x50, 0x30, 0xD1, 0xD2})
		}
		o, err := d.Unmarshal(clone(p))
		c.Ops(1)
		if err != nil {
			c.Failf("depacketizer-rejects", "%s: AV1Depacketizer.Unmarshal(payload %d = %s): %v", desc(), i, hx(p), err)
		}
		out = append(out, o...)
		if d.IsPartitionHead(p) != (p[0]&0x80 == 0) {
			c.Failf("partition-head", "%s: IsPartitionHead(payload %d)", desc(), i)
		}
	}
	var want []byte
	for _, o := range expected {
		want = append(want, o.Bytes(true)...)
	}
	if !bytes.Equal(out, want) {
		c.Failf("depacketized-differs", "%s: AV1Depacketizer output %s, want %s; payloads %s", desc(), hx(out), hx(want), hxs(payloads))
	}
	// (ii) deprecated AV1Packet + frame assembler
	var f frame.AV1
	var viaFrame [][]byte
	for i, p := range payloads {
		if decoyF != nil {
			var dp codecs.AV1Packet
			if _, err := dp.Unmarshal([]byte{0x50, 0x30, 0xD1, 0xD2}); err == nil {
				_, _ = decoyF.ReadFrames(&dp)
			}
		}
		var pk codecs.AV1Packet
		if _, err := pk.Unmarshal(clone(p)); err != nil {
			c.Failf("av1packet-rejects", "%s: AV1Packet.Unmarshal(payload %d = %s): %v", desc(), i, hx(p), err)
		}
		os, err := f.ReadFrames(&pk)
		c.Ops(2)
		if err != nil {
			c.Failf("av1packet-rejects", "%s: ReadFrames(payload %d): %v", desc(), i, err)
		}
		viaFrame = append(viaFrame, cloneAll(os)...)
	}
	if len(viaFrame) != len(expected) {
		c.Failf("frame-assembler-differs", "%s: AV1Packet+frame.AV1 give %d OBUs %s, want %d; payloads %s", desc(), len(viaFrame), hxs(viaFrame), len(expected), hxs(payloads))
	}
	for i := range expected {
		if !bytes.Equal(viaFrame[i], expected[i].Bytes(false)) {
			c.Failf("frame-assembler-differs", "%s: AV1Packet+frame.AV1 OBU %d = %s, want %s", desc(), i, hx(viaFrame[i]), hx(expected[i].Bytes(false)))
		}
	}
	if len(payloads) > 1 || len(expected) > 1 {
		c.NonTrivial()
	}
	c.Outcome(fmt.Sprintf("obus=%d packets=%d", len(expected), minI(len(payloads), 8)))
}

func c13Leb(c *mc.Ctx) {
	blk := uint64(c.Pick(4096)) // top 12 bits of the 32-bit value
	check := func(v uint64) {
		enc := obu.WriteToLeb128(uint(v))
		want := ref.Leb128(v)
		if !bytes.Equal(enc, want) {
			c.Failf("leb128-encoding", "WriteToLeb128(%d) = %s, want the minimal encoding %s", v, hx(enc), hx(want))
		}
		got, n, err := obu.ReadLeb128(append(enc, 0xFF))
		if err != nil || uint64(got) != v || int(n) != len(enc) {
			c.Failf("leb128-roundtrip", "ReadLeb128(WriteToLeb128(%d) = %s) = %d, %d, %v", v, hx(enc), got, n, err)
		}
	}
	cases := 0
	if c.Thorough() {
		for lo := uint64(0); lo < 1<<20; lo++ {
			check(blk<<20 | lo)
		}
		cases = 1 << 20
	} else {
		// a 2^16-stride sweep of this block plus the neighbourhood of every 7-bit boundary
		for lo := uint64(0); lo < 1<<20; lo += 1 << 16 {
			check(blk<<20 | lo)
			check(blk<<20 | lo | 0xFFFF)
			cases += 2
		}
		for _, b := range []uint64{0, 1 << 7, 1 << 14, 1 << 21, 1 << 28, 1<<32 - 1} {
			for d := int64(-4096); d <= 4096; d++ {
				v := int64(b) + d
				if v < 0 || v > 1<<32-1 || uint64(v)>>20 != blk {
					continue
				}
				check(uint64(v))
				cases++
			}
		}
	}
	// the deprecated aliases and the integer form agree on a sample of the block
	for _, v := range []uint64{blk << 20, blk<<20 | 0x7F, blk<<20 | 0x80, blk<<20 | 0xFFFFF} {
		a, an, aerr := obu.ReadLeb128(ref.Leb128(v))
		b, bn, berr := pkgobu.ReadLeb128(ref.Leb128(v))
		if a != b || an != bn || (aerr == nil) != (berr == nil) {
			c.Failf("deprecated-alias", "pkg/obu.ReadLeb128 differs from codecs/av1/obu for %d", v)
		}
		if obu.EncodeLEB128(uint(v)) != pkgobu.EncodeLEB128(uint(v)) {
			c.Failf("deprecated-alias", "pkg/obu.EncodeLEB128 differs for %d", v)
		}
		// EncodeLEB128 packs the encoded octets big-endian into an integer
		var packed uint
		for _, x := range ref.Leb128(v) {
			packed = packed<<8 | uint(x)
		}
		if obu.EncodeLEB128(uint(v)) != packed {
			c.Failf("leb128-encoding", "EncodeLEB128(%d) = %#x, want %#x", v, obu.EncodeLEB128(uint(v)), packed)
		}
	}
	// truncated encodings are rejected
	for _, v := range []uint64{blk<<20 | 0x80, blk<<20 | 0xFFFFF} {
		enc := ref.Leb128(v)
		if len(enc) > 1 {
			if _, _, err := obu.ReadLeb128(enc[:len(enc)-1]); err == nil {
				c.Failf("leb128-truncated-accepted", "ReadLeb128(%s) (cut) succeeded", hx(enc[:len(enc)-1]))
			}
		}
	}
	var _ pkgframe.AV1 = frame.AV1{}
	c.Ops(cases * 2)
	c.Cases(cases)
	if c.Verbose() {
		c.Notef("LEB128 values %#x..%#x: %d values", blk<<20, blk<<20|0xFFFFF, cases)
	}
	c.NonTrivial()
	c.Outcome("ok")
}

func c13Header(c *mc.Ctx) {
	b0 := byte(c.Pick(256))
	accepted := 0
	for b1 := 0; b1 < 256; b1++ {
		in := []byte{b0, byte(b1)}
		h, err := obu.ParseOBUHeader(in)
		if b0&0x80 != 0 {
			if err == nil {
				c.Failf("forbidden-bit-accepted", "ParseOBUHeader(%s) succeeded", hx(in))
			}
			continue
		}
		if err != nil {
			c.Failf("obu-header-rejected", "ParseOBUHeader(%s): %v", hx(in), err)
		}
		accepted++
		size := 1
		if b0&0x04 != 0 {
			size = 2
		}
		if h.Size() != size || !bytes.Equal(h.Marshal(), in[:size]) {
			c.Failf("obu-header-roundtrip", "ParseOBUHeader(%s).Marshal() = %s (Size %d)", hx(in), hx(h.Marshal()), h.Size())
		}
		if uint8(h.Type) != b0>>3&0x0F || h.HasSizeField != (b0&2 != 0) || h.Reserved1Bit != (b0&1 != 0) || (h.ExtensionHeader != nil) != (b0&4 != 0) {
			c.Failf("obu-header-fields", "ParseOBUHeader(%s) = %+v", hx(in), h)
		}
		if h.ExtensionHeader != nil {
			e := h.ExtensionHeader
			if e.TemporalID != byte(b1)>>5 || e.SpatialID != byte(b1)>>3&3 || e.Reserved3Bits != byte(b1)&7 {
				c.Failf("obu-header-fields", "ParseOBUHeader(%s) extension = %+v", hx(in), e)
			}
		}
		// marshal -> parse of the value
		back, err := obu.ParseOBUHeader(h.Marshal())
		if err != nil || back.Type != h.Type || back.HasSizeField != h.HasSizeField || back.Reserved1Bit != h.Reserved1Bit ||
			(back.ExtensionHeader == nil) != (h.ExtensionHeader == nil) || (h.ExtensionHeader != nil && *back.ExtensionHeader != *h.ExtensionHeader) {
			c.Failf("obu-header-roundtrip", "ParseOBUHeader(Marshal(%+v)) = %+v, %v", h, back, err)
		}
	}
	// a lone first octet: needs the extension octet when the flag is set
	_, err := obu.ParseOBUHeader([]byte{b0})
	if (err == nil) != (b0&0x80 == 0 && b0&0x04 == 0) {
		c.Failf("obu-header-short", "ParseOBUHeader(%02x) error = %v", b0, err)
	}
	if _, err := obu.ParseOBUHeader(nil); err == nil {
		c.Failf("obu-header-short", "ParseOBUHeader(nil) succeeded")
	}
	// OBU.Marshal with and without size field
	o := obu.OBU{Header: obu.Header{Type: obu.Type(b0 >> 3 & 0x0F), HasSizeField: b0&2 != 0, Reserved1Bit: b0&1 != 0}, Payload: fill(int(b0), 9)}
	if b0&4 != 0 {
		o.Header.ExtensionHeader = &obu.ExtensionHeader{TemporalID: b0 >> 5, SpatialID: b0 & 3, Reserved3Bits: b0 & 7}
	}
	want := o.Header.Marshal()
	if o.Header.HasSizeField {
		want = append(want, ref.Leb128(uint64(len(o.Payload)))...)
	}
	want = append(want, o.Payload...)
	if !bytes.Equal(o.Marshal(), want) {
		c.Failf("obu-marshal", "OBU{%+v, %d bytes}.Marshal() = %s, want %s", o.Header, len(o.Payload), hx(o.Marshal()), hx(want))
	}
	c.Ops(256 * 3)
	c.Cases(255)
	if c.Verbose() {
		c.Notef("OBU headers %02x00..%02xff: %d accepted", b0, b0, accepted)
	}
	if accepted > 0 {
		c.NonTrivial()
	}
	c.Outcome(fmt.Sprintf("accepted=%v", accepted > 0))
}

// c13Wide: dimensions the product scenario keeps small, taken one at a time.
// frames of three layers and without extension, removed OBUs with and without extension, a sequence header
var c13LayerAlphabet = []ref.OBU{
	{Type: 6, HasExt: true, TID: 0, SID: 0}, {Type: 6, HasExt: true, TID: 1, SID: 0}, {Type: 6, HasExt: true, TID: 0, SID: 1}, {Type: 6},
	{Type: 2}, {Type: 2, HasExt: true, TID: 1, SID: 0}, {Type: 8}, {Type: 8, HasExt: true, TID: 0, SID: 1}, {Type: 1},
}

// c13Decoy makes c13RunBytes interleave an unrelated second depacketizer and frame assembler.
var c13Decoy bool

func c13Wide(c *mc.Ctx) {
	c13Decoy = c.Bool()
	defer func() { c13Decoy = false }()
	omit := c.Bool()
	switch c.Pick(7) {
	case 6: // every ordered pair of layer ids (8 temporal x 4 spatial), with and without a third OBU of the first layer
		a, b := c.Pick(32), c.Pick(32)
		obus := []ref.OBU{
			{Type: 6, HasExt: true, TID: uint8(a / 4), SID: uint8(a % 4), Payload: fill(2, 1)},
			{Type: 6, HasExt: true, TID: uint8(b / 4), SID: uint8(b % 4), Payload: fill(2, 2)},
		}
		if c.Bool() {
			obus = append(obus, ref.OBU{Type: 6, HasExt: true, TID: uint8(a / 4), SID: uint8(a % 4), Payload: fill(1, 3)})
		}
		c13Run(c, 200, obus, omit)
	case 5: // OBUs that are removed on the way (temporal delimiter, tile list) between OBUs of different layers
		mtu := mc.From(c, []int{5, 200})
		n := 3 + c.Pick(3)
		if !c.Thorough() && n == 5 && c13Decoy {
			return
		}
		obus := make([]ref.OBU, n)
		for i := range obus {
			obus[i] = mc.From(c, c13LayerAlphabet)
			obus[i].Payload = fill(1+i%2, byte(i*17+1))
		}
		c13Run(c, mtu, obus, omit)
	case 3: // non-minimal (padded) LEB128 size fields in the input, which the AV1 syntax allows
		mtu := mc.From(c, []int{4, 10, 200})
		pad := 1 + c.Pick(3)
		n := 1 + c.Pick(3)
		var in []byte
		var obus []ref.OBU
		for i := 0; i < n; i++ {
			o := ref.OBU{Type: []uint8{6, 1, 3}[i%3], Payload: fill(mc.From(c, []int{0, 5, 130}), byte(i*9))}
			obus = append(obus, o)
			in = append(in, o.Header(true)...)
			sz := ref.Leb128(uint64(len(o.Payload)))
			for k := 0; k < pad; k++ {
				sz[len(sz)-1] |= 0x80
				sz = append(sz, 0x00)
			}
			in = append(in, sz...)
			in = append(in, o.Payload...)
		}
		c13RunBytes(c, mtu, obus, in, fmt.Sprintf("mtu=%d %d OBUs with size fields padded by %d bytes", mtu, n, pad))
	case 4: // very many elements in one packet
		mtu := mc.From(c, []int{1200, 65535})
		n := mc.From(c, []int{64, 255, 256, 257, 300})
		var obus []ref.OBU
		if c.Bool() {
			obus = append(obus, ref.OBU{Type: 6, Payload: fill(mtu+100, 1)})
		}
		for i := 0; i < n; i++ {
			obus = append(obus, ref.OBU{Type: 6, Payload: fill(1+i%2, byte(i))})
		}
		c13Run(c, mtu, obus, omit)
	case 0: // long sequences
		mtu := mc.From(c, []int{4, 9, 40})
		n := 6 + c.Pick(3)
		obus := make([]ref.OBU, n)
		for i := range obus {
			switch c.Pick(4) {
			case 0:
				obus[i] = ref.OBU{Type: 6, Payload: fill(1, byte(i))}
			case 1:
				obus[i] = ref.OBU{Type: 6, Payload: fill(mtu-1, byte(i))}
			case 2:
				obus[i] = ref.OBU{Type: 2}
			case 3:
				obus[i] = ref.OBU{Type: 6, HasExt: true, TID: uint8(i % 3), SID: uint8(i % 2), Payload: fill(2, byte(i))}
			}
		}
		c13Run(c, mtu, obus, omit)
	case 1: // every type and every extension value
		mtu := mc.From(c, []int{3, 6, 200})
		typ := uint8(c.Pick(16))
		o := ref.OBU{Type: typ, Payload: fill(mc.From(c, []int{0, 1, mtu, 2*mtu + 1}), 7)}
		if e := c.Pick(33); e > 0 {
			o.HasExt, o.TID, o.SID = true, uint8(e-1)>>2, uint8(e-1)&3
		}
		obus := []ref.OBU{o}
		if c.Bool() {
			obus = []ref.OBU{{Type: 6, HasExt: o.HasExt, TID: o.TID, SID: o.SID, Payload: fill(3, 1)}, o}
		}
		c13Run(c, mtu, obus, omit)
	case 2: // large OBUs
		mtu := mc.From(c, []int{5, 200, 20000, 65535})
		size := mc.From(c, []int{16382, 16383, 16384, 70000, 1<<21 - 2, 1<<21 - 1, 1 << 21, 1<<21 + 1})
		if mtu == 5 && size > 20000 || mtu == 200 && size > 100000 {
			return
		}
		obus := []ref.OBU{{Type: 6, Payload: fill(size, 3)}}
		if c.Bool() {
			obus = append([]ref.OBU{{Type: 1, Payload: fill(4, 2)}}, obus...)
		}
		if c.Bool() {
			obus = append(obus, ref.OBU{Type: 6, Payload: fill(130, 4)})
		}
		c13Run(c, mtu, obus, omit)
	}
}

// c13Reserved: the reserved bits of the OBU header and of its extension belong to the OBU.
func c13Reserved(c *mc.Ctx) {
	mtu := mc.From(c, []int{5, 16, 200})
	n := 1 + c.Pick(3)
	obus := make([]ref.OBU, n)
	for i := range obus {
		ext := c.Bool()
		o := ref.OBU{Type: mc.From(c, []uint8{1, 6}), HasExt: ext, Payload: fill(mc.From(c, []int{0, 1, 5, mtu + 3}), byte(i*31+5))}
		if ext {
			o.TID = 1
			o.Res = mc.From(c, []uint8{0, 1, 0xE, 0xF})
		} else {
			o.Res = uint8(c.Pick(2))
		}
		obus[i] = o
	}
	omitLast := c.Bool()
	what := c13Describe(mtu, obus, omitLast)
	for _, o := range obus {
		what += fmt.Sprintf(" res=%#x", o.Res)
	}
	c13RunBytes(c, mtu, obus, ref.AV1Stream(obus, omitLast), what)
}
