package props

import (
	"bytes"
	"fmt"

	"github.com/pion/rtp/codecs"

	"verif/mc"
	"verif/ref"
)

func init() {
	register(mc.Property{
		ID:   "C11",
		Rule: "payloader: one execution = one payloader instance driven through 32768+130 frames (every picture id, the 127/128 form switch and the wrap) for one (MTU, picture ids on/off, frame-length cycle offset), each frame is one case; decoder: one execution = one descriptor (all 256 first octets x all 256 extension octets x field values) with every truncation as a case; non-trivial = frame needs more than one packet / descriptor has the extension octet",
		Assumptions: []string{
			"payloader MTUs {5,6,8,10,100,1200} with picture ids and {2,3,4,10,100,1200} without (thorough: every MTU up to 40 and {63..65,127..129,255..257,1200,65535}); frame lengths cycle through {1,2,3,k*(MTU-h)+{-1,0,1} for k=1,2,3} (h = descriptor size in use) with every cycle offset, so that every picture id meets every length class",
			"for cycle offsets that are a multiple of 3 EnablePictureID is switched off for three frames out of every fifty (those frames carry no id; every frame counts for the running id, as in the unchanged library); for odd cycle offsets an unrelated second payloader is used every third frame; for offsets 2,3 mod 4 every fifth frame is preceded by a call with nil / empty input, which sends nothing and is read as not being a frame (the ids of the frames around it stay consecutive; the first frame sent carries 0)",
			"long frames: 257, 65537 and 70000 packets per frame (one-byte fragment budget at the smallest MTU of each picture-id form, and MTU 1200 with frames of 300 000 bytes) at picture ids {0,127,128,0x7FFF}",
			"decoder field alphabets in the flag product: 7-bit ids {0,127,0x55}, 15-bit ids {0,0x7FFF,0x1234}, TL0PICIDX {0,255}, TID/Y/KEYIDX octet {00,FF,A5}, 0/1/3 payload bytes; complete sub-domains one field at a time: all 128 + 32768 picture ids, all 256 TL0PICIDX, all 256 TID/Y/KEYIDX octets x T x K",
			"a cut exactly after the descriptor leaves an empty payload, which the library accepts (pinned by an existing test)",
		},
		Scenarios: []mc.Scenario{
			{Name: "payloader-all-picture-ids", Tiers: "qt", ShardDepth: 3, Run: c11Payloader},
			{Name: "payloader-long-frames", Tiers: "qt", ShardDepth: 2, Run: c11Long},
			{Name: "descriptor-flag-product", Tiers: "qt", ShardDepth: 2, Run: c11Flags},
			{Name: "descriptor-complete-fields", Tiers: "qt", ShardDepth: 2, Run: c11Fields},
		},
	})
}

func c11Payloader(c *mc.Ctx) {
	ids := c.Bool()
	mtus := []int{2, 3, 4, 10, 100, 1200}
	if ids {
		mtus = []int{5, 6, 8, 10, 100, 1200}
	}
	if c.Thorough() {
		// every MTU from the smallest that carries a byte up to 40, and the 8/16-bit boundaries
		mtus = []int{63, 64, 65, 127, 128, 129, 255, 256, 257, 1200, 65535}
		lo := 2
		if ids {
			lo = 5
		}
		for m := lo; m <= 40; m++ {
			mtus = append(mtus, m)
		}
	}
	mtu := mc.From(c, mtus)
	offset := c.Pick(12)
	frames := 32768 + 130
	if !ids {
		frames = 300
	}
	p := &codecs.VP8Payloader{EnablePictureID: ids}
	// for odd offsets an unrelated second payloader is used every third frame
	var decoy *codecs.VP8Payloader
	if offset%2 == 1 {
		decoy = &codecs.VP8Payloader{EnablePictureID: true}
	}
	multi := 0
	for f := 0; f < frames; f++ {
		if decoy != nil && f%3 == 0 {
			decoy.Payload(uint16(mtu), []byte{0xD1, 0xD2})
		}
		if offset%4 >= 2 && f%5 == 2 {
			// a call without a frame (nil / empty input) sends nothing and is not a frame: the
			// ids of the frames around it stay consecutive
			var none []byte
			if f%2 == 0 {
				none = []byte{}
			}
			if out := p.Payload(uint16(mtu), none); len(out) != 0 {
				c.Failf("no-packets", "mtu=%d: Payload of an empty input returned %s", mtu, hxs(out))
			}
		}
		id := uint16(f & 0x7FFF)
		// for offsets that are a multiple of 3 the picture ids are switched off for three frames
		// out of fifty: those frames carry none, and every frame counts for the running id
		idsNow := ids && !(offset%3 == 0 && f%50 >= 10 && f%50 <= 12)
		if ids {
			p.EnablePictureID = idsNow
		}
		h := 1
		if idsNow {
			h = 3
			if id >= 128 {
				h = 4
			}
		}
		room := mtu - h
		lens := []int{1, 2, 3, room - 1, room, room + 1, 2*room - 1, 2 * room, 2*room + 1, 3*room - 1, 3 * room, 3*room + 1}
		n := lens[(f+offset)%12]
		if n < 1 {
			n = 1
		}
		keep := fill(n, byte(f))
		frame, intact := guard(keep)
		pkts := p.Payload(uint16(mtu), frame)
		if !bytes.Equal(frame, keep) || !intact() {
			c.Failf("input-modified", "mtu=%d frame %d: Payload changed its input", mtu, f)
		}
		if len(pkts) == 0 {
			c.Failf("no-packets", "mtu=%d ids=%v frame %d (%d bytes): no packet returned although the MTU exceeds the %d-byte descriptor", mtu, ids, f, n, h)
		}
		if len(pkts) > 1 {
			multi++
		}
		var got []byte
		for i, pk := range pkts {
			if len(pk) > mtu {
				c.Failf("mtu", "mtu=%d frame %d: packet %d has %d bytes", mtu, f, i, len(pk))
			}
			var d codecs.VP8Packet
			out, err := d.Unmarshal(pk)
			if err != nil {
				c.Failf("own-output-rejected", "mtu=%d ids=%v frame %d: VP8Packet.Unmarshal(%s): %v", mtu, ids, f, hx(pk), err)
			}
			got = append(got, out...)
			if (d.S == 1) != (i == 0) || d.IsPartitionHead(pk) != (i == 0) {
				c.Failf("start-bit", "mtu=%d ids=%v frame %d packet %d of %d: S=%d IsPartitionHead=%v (%s)", mtu, ids, f, i, len(pkts), d.S, d.IsPartitionHead(pk), hx(pk))
			}
			if d.PID != 0 {
				c.Failf("partition-index", "mtu=%d frame %d packet %d: partition index %d", mtu, f, i, d.PID)
			}
			if idsNow {
				if d.X != 1 || d.I != 1 || d.PictureID != id {
					c.Failf("picture-id", "mtu=%d frame %d (expected picture id %d) packet %d: X=%d I=%d PictureID=%d (%s)", mtu, f, id, i, d.X, d.I, d.PictureID, hx(pk))
				}
				m := pk[2]&0x80 != 0
				if m != (id >= 128) {
					c.Failf("picture-id-form", "mtu=%d frame %d picture id %d packet %d: M bit %v (7-bit form below 128, 15-bit form from 128): %s", mtu, f, id, i, m, hx(pk))
				}
			}
		}
		if !bytes.Equal(got, keep) {
			c.Failf("frame-differs", "mtu=%d ids=%v frame %d (%d bytes): concatenated payloads %s, want %s", mtu, ids, f, n, hx(got), hx(keep))
		}
	}
	c.Ops(frames * 3)
	c.Cases(frames - 1)
	if c.Verbose() {
		c.Notef("VP8Payloader ids=%v mtu=%d offset=%d: %d frames, %d needed more than one packet", ids, mtu, offset, frames, multi)
	}
	if multi > 0 {
		c.NonTrivial()
	}
	c.Outcome(fmt.Sprintf("ids=%v multi>0=%v", ids, multi > 0))
}

// c11CheckDesc decodes desc+payload and every truncation of it.
func c11CheckDesc(c *mc.Ctx, d *ref.VP8Desc, payload []byte) {
	enc := d.Encode()
	full := append(clone(enc), payload...)
	for cut := 0; cut <= len(full); cut++ {
		in := clone(full[:cut])
		var p codecs.VP8Packet
		// a used receiver must not matter either: pre-load every field
		p = codecs.VP8Packet{X: 1, N: 1, S: 1, PID: 7, I: 1, L: 1, T: 1, K: 1, PictureID: 0x7FFF, TL0PICIDX: 0xFF, TID: 3, Y: 1, KEYIDX: 31}
		out, err := p.Unmarshal(in)
		if cut < len(enc) || cut == 0 {
			if err == nil {
				c.Failf("truncated-accepted", "descriptor %s cut to %d bytes (%s) was accepted", hx(enc), cut, hx(in))
			}
			continue
		}
		if err != nil {
			c.Failf("well-formed-rejected", "descriptor %s + %d payload bytes: %v", hx(enc), cut-len(enc), err)
		}
		if !bytes.Equal(out, full[len(enc):cut]) || !bytes.Equal(p.Payload, out) {
			c.Failf("payload-differs", "descriptor %s + payload %s: returned %s", hx(enc), hx(full[len(enc):cut]), hx(out))
		}
		bit := func(b bool) uint8 {
			if b {
				return 1
			}
			return 0
		}
		want := codecs.VP8Packet{X: bit(d.X), N: bit(d.N), S: bit(d.S), PID: d.PID & 7}
		if d.X {
			want.I, want.L, want.T, want.K = bit(d.I), bit(d.L), bit(d.T), bit(d.K)
			if d.I {
				want.PictureID = d.PictureID
				if !d.M {
					want.PictureID &= 0x7F
				}
			}
			if d.L {
				want.TL0PICIDX = d.TL0PICIDX
			}
			if d.T {
				want.TID, want.Y = d.TID&3, bit(d.Y)
			}
			if d.K {
				want.KEYIDX = d.KEYIDX & 0x1F
			}
		}
		got := p
		got.Payload = nil
		if fmt.Sprintf("%+v", got) != fmt.Sprintf("%+v", want) {
			c.Failf("fields-differ", "descriptor %s: decoded %+v, want %+v", hx(enc), got, want)
		}
		if p.IsPartitionHead(in) != d.S {
			c.Failf("partition-head", "descriptor %s: IsPartitionHead %v, S=%v", hx(enc), !d.S, d.S)
		}
	}
	c.Ops(len(full) + 1)
	c.Cases(len(full))
}

func c11Flags(c *mc.Ctx) {
	b0 := byte(c.Pick(256))
	d := &ref.VP8Desc{X: b0&0x80 != 0, R1: b0&0x40 != 0, N: b0&0x20 != 0, S: b0&0x10 != 0, R2: b0&0x08 != 0, PID: b0 & 7}
	if d.X {
		b1 := byte(c.Pick(256))
		d.I, d.L, d.T, d.K, d.RSV = b1&0x80 != 0, b1&0x40 != 0, b1&0x20 != 0, b1&0x10 != 0, b1&0x0F
		if d.I {
			d.M = c.Bool()
			if d.M {
				d.PictureID = mc.From(c, []uint16{0, 0x7FFF, 0x1234})
			} else {
				d.PictureID = mc.From(c, []uint16{0, 127, 0x55})
			}
		}
		if d.L {
			d.TL0PICIDX = mc.From(c, []uint8{0, 255})
		}
		if d.T || d.K {
			tk := mc.From(c, []byte{0x00, 0xFF, 0xA5})
			d.TID, d.Y, d.KEYIDX = tk>>6, tk&0x20 != 0, tk&0x1F
		}
	}
	payload := fill(mc.From(c, []int{0, 1, 3}), 0x90)
	if c.Verbose() {
		c.Notef("descriptor %s + %d payload bytes, every truncation", hx(d.Encode()), len(payload))
	}
	c11CheckDesc(c, d, payload)
	if d.X {
		c.NonTrivial()
	}
	c.Outcome(fmt.Sprintf("X=%v I=%v L=%v T=%v K=%v", d.X, d.I, d.L, d.T, d.K))
}

func c11Fields(c *mc.Ctx) {
	which := c.Pick(4)
	payload := []byte{0xAB}
	switch which {
	case 0: // all 7-bit ids
		blk := c.Pick(2)
		for v := 0; v < 64; v++ {
			c11CheckDesc(c, &ref.VP8Desc{X: true, S: true, I: true, PictureID: uint16(blk*64 + v)}, payload)
		}
	case 1: // all 15-bit ids
		blk := c.Pick(256)
		for v := 0; v < 128; v++ {
			c11CheckDesc(c, &ref.VP8Desc{X: true, I: true, M: true, L: blk&1 == 1, TL0PICIDX: 0x77, PictureID: uint16(blk*128 + v)}, payload)
		}
	case 2: // all TL0PICIDX
		blk := c.Pick(4)
		for v := 0; v < 64; v++ {
			c11CheckDesc(c, &ref.VP8Desc{X: true, L: true, I: blk&1 == 1, PictureID: 5, TL0PICIDX: uint8(blk*64 + v)}, payload)
		}
	case 3: // all TID/Y/KEYIDX octets x T x K
		tk := 1 + c.Pick(3)
		blk := c.Pick(4)
		for v := 0; v < 64; v++ {
			o := byte(blk*64 + v)
			c11CheckDesc(c, &ref.VP8Desc{X: true, T: tk&1 != 0, K: tk&2 != 0, TID: o >> 6, Y: o&0x20 != 0, KEYIDX: o & 0x1F}, payload)
		}
	}
	if c.Verbose() {
		c.Notef("complete field sweep %d", which)
	}
	c.NonTrivial()
	c.Outcome(fmt.Sprintf("field=%d", which))
}

// c11Long: frames that need more than 256 / 65536 packets.
func c11Long(c *mc.Ctx) {
	ids := c.Bool()
	startID := mc.From(c, []int{0, 127, 128, 0x7FFF})
	if !ids && startID != 0 {
		return
	}
	big := c.Bool()
	p := &codecs.VP8Payloader{EnablePictureID: ids}
	for i := 0; i < startID; i++ {
		p.Payload(1200, []byte{1})
	}
	h := 1
	if ids {
		h = 3
		if startID >= 128 {
			h = 4
		}
	}
	mtu, n := h+1, mc.From(c, []int{257, 65537, 70000})
	if big {
		mtu, n = 1200, 300000
	}
	frame := fill(n, 0x3D)
	pkts := p.Payload(uint16(mtu), frame)
	var got []byte
	for i, pk := range pkts {
		if len(pk) > mtu {
			c.Failf("mtu", "mtu=%d frame of %d bytes: packet %d has %d bytes", mtu, n, i, len(pk))
		}
		var d codecs.VP8Packet
		out, err := d.Unmarshal(pk)
		if err != nil {
			c.Failf("own-output-rejected", "mtu=%d ids=%v frame of %d bytes: packet %d: %v", mtu, ids, n, i, err)
		}
		got = append(got, out...)
		if (d.S == 1) != (i == 0) || d.IsPartitionHead(pk) != (i == 0) || d.PID != 0 {
			c.Failf("start-bit", "mtu=%d ids=%v frame of %d bytes: packet %d of %d: S=%d IsPartitionHead=%v PID=%d", mtu, ids, n, i, len(pkts), d.S, d.IsPartitionHead(pk), d.PID)
		}
		if ids && (d.I != 1 || int(d.PictureID) != startID || (pk[2]&0x80 != 0) != (startID >= 128)) {
			c.Failf("picture-id", "mtu=%d frame of %d bytes, expected picture id %d: packet %d carries I=%d id %d (%s)", mtu, n, startID, i, d.I, d.PictureID, hx(pk[:h]))
		}
	}
	if !bytes.Equal(got, frame) {
		c.Failf("frame-differs", "mtu=%d ids=%v frame of %d bytes: %d packets reassemble to %d bytes", mtu, ids, n, len(pkts), len(got))
	}
	c.Ops(len(pkts) + 1)
	if c.Verbose() {
		c.Notef("ids=%v start id %d mtu=%d frame of %d bytes -> %d packets", ids, startID, mtu, n, len(pkts))
	}
	c.NonTrivial()
	c.Outcome(fmt.Sprintf("ids=%v", ids))
}
