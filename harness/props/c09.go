package props

import (
	"bytes"
	"fmt"

	"github.com/pion/rtp/codecs"
	"github.com/pion/rtp/codecs/av1/frame"

	"verif/mc"
	"verif/ref"
)

func init() {
	register(mc.Property{
		ID:   "C09",
		Rule: "one case = (receiver kind, sequence of 1-3 (thorough 4) payloads fed to one receiver with IsPartitionHead/IsPartitionTail calls in between) or (receiver kind, one short byte string); non-trivial = the last payload is accepted",
		Assumptions: []string{
			"receivers: H264Packet Annex-B and AVC, H265Packet with and without DONL, VP8Packet, VP9Packet, AV1Depacketizer, AV1Packet (fresh per payload and reused) + one frame.AV1 assembler, OpusPacket",
			"short strings: nil, empty, all strings of 1-2 bytes, all 3-byte strings (thorough) / 3-byte strings over a 40-symbol alphabet (quick)",
			"histories: all sequences of 6 payloads over a 7-payload spread of the corpus, and all sequences over a corpus of about 40 payloads per codec from the reference encoders (every descriptor option, fragment start/middle/end, aggregation, PACI, truncated and malformed ones)",
			"per-packet formats (VP8, VP9, H265, Opus): return values always, and every exported field / accessor on success, are compared with a fresh receiver given the same payload; nil vs empty slices are not distinguished. Stateful formats (H264Packet, AV1Depacketizer): an instance whose input buffers are overwritten after every call must give the same outputs as a twin fed pristine copies",
			"runs of 150 payloads on one receiver, walking the corpus with a stride of 1, 2, 3, 5, 7 or 11 from every starting index below 12: the same oracles as the histories at every step",
			"options: the short strings, the histories of up to 2 payloads and the runs are also explored with SetZeroAllocation(true) on every video depacketizer, and - for H265Packet - with WithDONL switched between the calls on one receiver (a fresh receiver gets the setting of the current call)",
			"wide structures: VP9 scalability structures for EVERY N_G 0..255 x five P_DIFF-count patterns x N_S {0,7}; STAP-A / H265 aggregation packets (with and without DONL) of {1,2,3,16,255,256,257,300} units; AV1 packets of {1,2,3,4,32,255,256,300} elements in the W=0 form and W=1..3; each at every truncation below 24 bytes, every 7th and the last 6; AV1 OBUs of {16383, 16384, 2^21-1, 2^21, 2^21+5} bytes delivered as the payloader's fragment trains to AV1Depacketizer and AV1Packet+frame.AV1",
		},
		Scenarios: []mc.Scenario{
			{Name: "short-strings", Tiers: "qt", ShardDepth: 2, Run: c09Short},
			{Name: "payload-histories", Tiers: "qt", ShardDepth: 3, Run: c09Histories},
			{Name: "wide-structures-every-count", Tiers: "qt", ShardDepth: 3, Run: c09Wide},
			{Name: "runs-of-150-payloads", Tiers: "qt", ShardDepth: 3, Run: c09Runs},
		},
	})
}

const c09Kinds = 10

var c09KindNames = []string{"H264Packet", "H264Packet/AVC", "H265Packet", "H265Packet/DONL", "VP8Packet", "VP9Packet", "AV1Depacketizer", "AV1Packet(fresh)+frame.AV1", "AV1Packet(reused)+frame.AV1", "OpusPacket"}

// c09Recv wraps one receiver kind behind a uniform step function that returns the
// returned bytes, the error and a description of the exported metadata.
type c09Recv struct {
	kind int
	h264 *codecs.H264Packet
	h265 *codecs.H265Packet
	vp8  *codecs.VP8Packet
	vp9  *codecs.VP9Packet
	av1d *codecs.AV1Depacketizer
	av1p *codecs.AV1Packet
	asm  *frame.AV1
	opus *codecs.OpusPacket
}

// options that apply to every receiver built while they are set (the reused one, its twin and the
// fresh ones it is compared with): zero-allocation mode of the video depacketizers, and for
// H265Packet the DONL setting to use for the next call (switched between calls on one receiver)
var (
	c09ZeroAlloc bool
	c09DONLNow   *bool
)

func c09SetOptions(c *mc.Ctx, kind int, allowed bool) (toggleDONL bool) {
	c09ZeroAlloc, c09DONLNow = false, nil
	if !allowed {
		return false
	}
	switch c.Pick(3) {
	case 1:
		c09ZeroAlloc = true
	case 2:
		if kind != 2 && kind != 3 {
			c.Prune()
		}
		return true
	}
	return false
}

func c09New(kind int) *c09Recv {
	r := c09NewPlain(kind)
	if c09ZeroAlloc {
		switch {
		case r.h264 != nil:
			r.h264.SetZeroAllocation(true)
		case r.h265 != nil:
			r.h265.SetZeroAllocation(true)
		case r.vp8 != nil:
			r.vp8.SetZeroAllocation(true)
		case r.vp9 != nil:
			r.vp9.SetZeroAllocation(true)
		case r.av1d != nil:
			r.av1d.SetZeroAllocation(true)
		}
	}
	return r
}

func c09NewPlain(kind int) *c09Recv {
	r := &c09Recv{kind: kind}
	switch kind {
	case 0:
		r.h264 = &codecs.H264Packet{}
	case 1:
		r.h264 = &codecs.H264Packet{IsAVC: true}
	case 2:
		r.h265 = &codecs.H265Packet{}
	case 3:
		r.h265 = &codecs.H265Packet{}
		r.h265.WithDONL(true)
	case 4:
		r.vp8 = &codecs.VP8Packet{}
	case 5:
		r.vp9 = &codecs.VP9Packet{}
	case 6:
		r.av1d = &codecs.AV1Depacketizer{}
	case 7, 8:
		r.av1p = &codecs.AV1Packet{}
		r.asm = &frame.AV1{}
	case 9:
		r.opus = &codecs.OpusPacket{}
	}
	return r
}

func c09H265Meta(p *codecs.H265Packet) string {
	u16 := func(v *uint16) string {
		if v == nil {
			return "nil"
		}
		return fmt.Sprint(*v)
	}
	switch pk := p.Packet().(type) {
	case *codecs.H265SingleNALUnitPacket:
		return fmt.Sprintf("single hdr=%#x donl=%s payload=%x", pk.PayloadHeader(), u16(pk.DONL()), pk.Payload())
	case *codecs.H265AggregationPacket:
		s := fmt.Sprintf("ap first{donl=%s size=%d unit=%x}", u16(pk.FirstUnit().DONL()), pk.FirstUnit().NALUSize(), pk.FirstUnit().NalUnit())
		for _, o := range pk.OtherUnits() {
			d := "nil"
			if o.DOND() != nil {
				d = fmt.Sprint(*o.DOND())
			}
			s += fmt.Sprintf(" {dond=%s size=%d unit=%x}", d, o.NALUSize(), o.NalUnit())
		}
		return s
	case *codecs.H265FragmentationUnitPacket:
		return fmt.Sprintf("fu hdr=%#x fu=%#x donl=%s payload=%x", pk.PayloadHeader(), pk.FuHeader(), u16(pk.DONL()), pk.Payload())
	case *codecs.H265PACIPacket:
		t := "nil"
		if pk.TSCI() != nil {
			t = fmt.Sprintf("%#x", *pk.TSCI())
		}
		return fmt.Sprintf("paci hdr=%#x A=%v c=%d phs=%d F=%v%v%v Y=%v phes=%x payload=%x tsci=%s", pk.PayloadHeader(), pk.A(), pk.CType(), pk.PHSsize(), pk.F0(), pk.F1(), pk.F2(), pk.Y(), pk.PHES(), pk.Payload(), t)
	case nil:
		return "nil"
	}
	return fmt.Sprintf("%T", p.Packet())
}

// step feeds one payload; partition calls on cur and other are interleaved.
func (r *c09Recv) step(cur, other []byte) (out []byte, err error, meta string) {
	switch r.kind {
	case 0, 1:
		r.h264.IsPartitionHead(other)
		r.h264.IsPartitionTail(true, other)
		out, err = r.h264.Unmarshal(cur)
		r.h264.IsPartitionHead(cur)
		r.h264.IsPartitionTail(false, cur)
		r.h264.IsDetectedFinalPacketInSequence(true)
	case 2, 3:
		if c09DONLNow != nil {
			r.h265.WithDONL(*c09DONLNow)
		}
		r.h265.IsPartitionHead(other)
		r.h265.IsPartitionTail(true, other)
		out, err = r.h265.Unmarshal(cur)
		r.h265.IsPartitionHead(cur)
		if err == nil {
			meta = c09H265Meta(r.h265)
		}
	case 4:
		r.vp8.IsPartitionHead(other)
		r.vp8.IsPartitionTail(false, other)
		out, err = r.vp8.Unmarshal(cur)
		r.vp8.IsPartitionHead(cur)
		if err == nil {
			p := *r.vp8
			meta = fmt.Sprintf("X%d N%d S%d PID%d I%d L%d T%d K%d pic%d tl0%d tid%d y%d key%d payload=%x", p.X, p.N, p.S, p.PID, p.I, p.L, p.T, p.K, p.PictureID, p.TL0PICIDX, p.TID, p.Y, p.KEYIDX, p.Payload)
		}
	case 5:
		r.vp9.IsPartitionHead(other)
		r.vp9.IsPartitionTail(true, other)
		out, err = r.vp9.Unmarshal(cur)
		r.vp9.IsPartitionHead(cur)
		if err == nil {
			p := r.vp9
			meta = fmt.Sprintf("I%v P%v L%v F%v B%v E%v V%v Z%v pic%d tid%d U%v sid%d D%v pdiff%v tl0%d NS%d Y%v G%v NG%d W%v H%v pgtid%v pgu%v pgp%v payload=%x",
				p.I, p.P, p.L, p.F, p.B, p.E, p.V, p.Z, p.PictureID, p.TID, p.U, p.SID, p.D, p.PDiff, p.TL0PICIDX, p.NS, p.Y, p.G, p.NG, p.Width, p.Height, p.PGTID, p.PGU, p.PGPDiff, p.Payload)
		}
	case 6:
		r.av1d.IsPartitionHead(other)
		r.av1d.IsPartitionTail(true, other)
		out, err = r.av1d.Unmarshal(cur)
		r.av1d.IsPartitionHead(cur)
		if err == nil {
			meta = fmt.Sprintf("Z%v Y%v N%v", r.av1d.Z, r.av1d.Y, r.av1d.N)
		}
	case 7, 8:
		if r.kind == 7 {
			r.av1p = &codecs.AV1Packet{}
		}
		out, err = r.av1p.Unmarshal(cur)
		if err == nil {
			var obus [][]byte
			obus, err = r.asm.ReadFrames(r.av1p)
			meta = fmt.Sprintf("%x", obus)
		}
	case 9:
		r.opus.IsPartitionHead(other)
		r.opus.IsPartitionTail(false, other)
		out, err = r.opus.Unmarshal(cur)
		if err == nil {
			meta = fmt.Sprintf("payload=%x", r.opus.Payload)
		}
	}
	return out, err, meta
}

var c09Sym40 = []byte{0x00, 0x01, 0x02, 0x03, 0x05, 0x07, 0x08, 0x0A, 0x0F, 0x10, 0x12, 0x18, 0x1C, 0x1F, 0x20, 0x30, 0x32, 0x38, 0x3F, 0x40,
	0x50, 0x5C, 0x60, 0x62, 0x64, 0x78, 0x7C, 0x7F, 0x80, 0x81, 0x90, 0x9C, 0xA0, 0xB0, 0xC0, 0xDC, 0xE0, 0xF0, 0xFE, 0xFF}

func c09Short(c *mc.Ctx) {
	kind := c.Pick(c09Kinds)
	c09SetOptions(c, kind, kind != 9 && c.Bool())
	defer c09SetOptions(c, kind, false)
	b0 := c.Pick(258) // 0 nil, 1 empty, 2.. first byte
	if b0 < 2 {
		var in []byte
		if b0 == 1 {
			in = []byte{}
		}
		c09Single(c, kind, in)
		c.Outcome(c09KindNames[kind])
		return
	}
	first := byte(b0 - 2)
	c09Single(c, kind, []byte{first})
	n := 1
	for b1 := 0; b1 < 256; b1++ {
		c09Single(c, kind, []byte{first, byte(b1)})
		n++
		if c.Thorough() {
			for b2 := 0; b2 < 256; b2++ {
				c09Single(c, kind, []byte{first, byte(b1), byte(b2)})
			}
			n += 256
		}
	}
	if !c.Thorough() {
		inAlpha := false
		for _, s := range c09Sym40 {
			if s == first {
				inAlpha = true
			}
		}
		if inAlpha {
			for _, s1 := range c09Sym40 {
				for _, s2 := range c09Sym40 {
					c09Single(c, kind, []byte{first, s1, s2})
					n++
				}
			}
		}
	}
	c.Cases(n - 1)
	if c.Verbose() {
		c.Notef("%s: %d strings starting with %02x", c09KindNames[kind], n, first)
	}
	c.NonTrivial()
	c.Outcome(c09KindNames[kind])
}

// c09Single: one string into a fresh receiver and into a used one (no panic; for the
// per-packet formats the used receiver must agree with the fresh one).
func c09Single(c *mc.Ctx, kind int, in []byte) {
	fresh := c09New(kind)
	fo, ferr, fmeta := fresh.step(clone(in), in)
	used := c09New(kind)
	warm := c09Corpus(kind)
	used.step(clone(warm[3%len(warm)]), nil)
	used.step(clone(warm[len(warm)/2]), in)
	uo, uerr, umeta := used.step(clone(in), in)
	c.Ops(4)
	if c09PerPacket(kind) {
		if (ferr == nil) != (uerr == nil) || !bytes.Equal(fo, uo) || (ferr == nil && fmeta != umeta) {
			c.Failf("reuse-differs", "%s: payload %s into a used receiver gives (%s, err=%v, %s); a fresh receiver gives (%s, err=%v, %s)", c09KindNames[kind], hx(in), hx(uo), uerr, umeta, hx(fo), ferr, fmeta)
		}
	}
}

func c09PerPacket(kind int) bool {
	return kind == 2 || kind == 3 || kind == 4 || kind == 5 || kind == 9
}
func c09Stateful(kind int) bool { return kind == 0 || kind == 1 || kind == 6 }

var c09CorpusCache = map[int][][]byte{}

func c09Corpus(kind int) [][]byte {
	fam := []int{0, 0, 2, 3, 4, 5, 6, 6, 6, 9}[kind]
	if v, ok := c09CorpusCache[fam]; ok {
		return v
	}
	var out [][]byte
	add := func(bs ...[]byte) { out = append(out, bs...) }
	add(nil, []byte{})
	switch fam {
	case 0: // H264
		add(c15H264Garbage[2:]...)
		add(c15H264Frame("s", 1)...)
		add(c15H264Frame("a", 2)...)
		add(c15H264Frame("4", 3)...)
		add(c15H264Frame("2", 4)...)
		add(ref.H264Fragment(ref.H264Unit(5, 3, 70000, 9), []int{30000, 60000})...) // a unit of more than 65535 bytes
		add(ref.H264StapAPayload([][]byte{ref.H264Unit(7, 3, 300, 1), ref.H264Unit(8, 3, 256, 2)}))
		add(ref.H264StapAPayload([][]byte{ref.H264Unit(7, 3, 2, 1)}))
		add([]byte{0x18}, []byte{0x18, 0x00, 0x05, 0x01, 0x02}, []byte{0x18, 0x00, 0x00}, []byte{0x18, 0x00, 0x01, 0x67, 0x00}, []byte{0x78, 0xFF, 0xFF})
		add([]byte{0x7C}, []byte{0x7C, 0xC5}, []byte{0x7C, 0xC5, 0x01}, []byte{0x7C, 0x45}, []byte{0x1C, 0x00, 0x09})
		add([]byte{0x00, 0x01}, []byte{0x19, 0x01}, []byte{0x1D, 0x80, 0x01}, []byte{0x1F}, []byte{0x80}, []byte{0x61})
	case 2, 3: // H265
		for _, donl := range []bool{false, true} {
			var dv *uint16
			if donl {
				v := uint16(0xBEEF)
				dv = &v
			}
			u := ref.H265Unit(19, 1, 2, 9, 4)
			add(ref.H265Single(u, dv), ref.H265Single(ref.H265Unit(1, 0, 1, 3, 1), dv))
			add(ref.H265AP([][]byte{ref.H265Unit(32, 0, 1, 4, 1), ref.H265Unit(33, 0, 1, 5, 2), ref.H265Unit(34, 1, 3, 3, 3)}, dv, []uint8{0, 7}))
			add(ref.H265AP([][]byte{ref.H265Unit(1, 0, 1, 2, 1), ref.H265Unit(1, 0, 1, 2, 2)}, dv, []uint8{1}))
			add(ref.H265FU(u, []int{2, 5}, dv)...)
		}
		// an aggregation packet whose units after the first total more than 65535 bytes
		add(ref.H265AP([][]byte{ref.H265Unit(1, 0, 1, 10, 1), ref.H265Unit(1, 0, 1, 30000, 2), ref.H265Unit(1, 0, 1, 30000, 3), ref.H265Unit(1, 0, 1, 6000, 4)}, nil, nil))
		add(ref.H265AP([][]byte{ref.H265Unit(1, 0, 1, 300, 1), ref.H265Unit(1, 0, 1, 256, 2)}, nil, nil))
		for _, donl := range []bool{false, true} {
			var dv *uint16
			if donl {
				v := uint16(0x0102)
				dv = &v
			}
			ap := ref.H265AP([][]byte{ref.H265Unit(1, 0, 1, 2, 1), ref.H265Unit(1, 0, 1, 3, 2), ref.H265Unit(1, 0, 1, 2, 3)}, dv, []uint8{5, 6})
			for cut := 3; cut < len(ap); cut++ { // every truncation
				add(clone(ap[:cut]))
			}
		}
		add(ref.H265PACI(1, 2, 3<<4|8, []byte{0x11, 0x22, 0xC3}, []byte{0x99, 0x98}))
		add(ref.H265PACI(0, 1, 0, nil, []byte{0x77}))
		add(ref.H265PACI(0, 1, 31<<4|0xF, fill(31, 3), []byte{0x77}))
		add(ref.H265PACI(0, 1, 5<<4|8, []byte{1, 2}, nil)) // PHES shorter than announced
		add([]byte{0x60, 0x01}, []byte{0x60, 0x01, 0x00}, []byte{0x60, 0x01, 0x00, 0x02, 0x01, 0x02}, []byte{0x60, 0x01, 0x00, 0x02, 0x01, 0x02, 0x00, 0x09, 0x01})
		add([]byte{0x62, 0x01}, []byte{0x62, 0x01, 0x93}, []byte{0x62, 0x01, 0x93, 0x01, 0x02}, []byte{0x62, 0x01, 0x53, 0x01})
		add([]byte{0x64, 0x01, 0x00, 0x00}, []byte{0x64, 0x01, 0x01, 0xF8, 0x01}, []byte{0x80, 0x01, 0x02}, []byte{0x26, 0x01}, []byte{0x26})
	case 4: // VP8
		ds := []*ref.VP8Desc{
			{S: true}, {}, {N: true, PID: 7}, {X: true, I: true, PictureID: 0x11}, {X: true, S: true, I: true, M: true, PictureID: 0x1234},
			{X: true, L: true, TL0PICIDX: 0x55}, {X: true, T: true, TID: 2, Y: true}, {X: true, K: true, KEYIDX: 0x1F}, {X: true, T: true, K: true, TID: 3, KEYIDX: 7},
			{X: true, I: true, L: true, T: true, K: true, M: true, PictureID: 0x7FFF, TL0PICIDX: 0xFF, TID: 1, Y: true, KEYIDX: 0x15}, {X: true, RSV: 0x0F}, {X: true, I: true, L: true, PictureID: 0x7F, TL0PICIDX: 1},
		}
		for _, d := range ds {
			e := d.Encode()
			add(append(clone(e), 0xA1, 0xA2), clone(e))
			if len(e) > 1 {
				add(clone(e[:len(e)-1]))
			}
		}
		add([]byte{0x80}, []byte{0x80, 0x80}, []byte{0x80, 0x80, 0x80}, []byte{0xFF, 0xFF, 0xFF, 0xFF, 0xFF, 0xFF, 0xFF})
	case 5: // VP9
		ds := []*ref.VP9Desc{
			{B: true, E: true}, {I: true, PictureID: 0x33}, {I: true, M: true, PictureID: 0x4567, B: true},
			{L: true, TID: 5, U: true, SID: 4, D: true, TL0PICIDX: 0x9A}, {L: true, F: true, TID: 1, SID: 2},
			{I: true, P: true, F: true, PictureID: 1, PDiff: []uint8{1}}, {P: true, F: true, PDiff: []uint8{2, 3}}, {I: true, M: true, P: true, F: true, L: true, PictureID: 0x7FFF, SID: 1, PDiff: []uint8{0x7F, 1, 0x40}},
			{V: true, NS: 0}, {V: true, NS: 1, Y: true, Width: []uint16{640, 1280}, Height: []uint16{360, 720}},
			{V: true, NS: 0, G: true, NG: 1, PGTID: []uint8{0}, PGU: []bool{true}, PGPDiff: [][]uint8{{1}}},
			{V: true, NS: 2, Y: true, G: true, Width: []uint16{1, 2, 3}, Height: []uint16{4, 5, 6}, NG: 3, PGTID: []uint8{0, 2, 1}, PGU: []bool{false, true, true}, PGPDiff: [][]uint8{{}, {1, 2, 3}, {4}}},
			{I: true, P: true, L: true, V: true, Z: true, PictureID: 9, TID: 7, SID: 3, TL0PICIDX: 1, NS: 0, G: true, NG: 2, PGTID: []uint8{1, 1}, PGU: []bool{true, false}, PGPDiff: [][]uint8{{9, 8}, {7}}},
			{V: true, G: true, NG: 0}, {P: true}, {F: true},
		}
		for _, d := range ds {
			e := d.Encode()
			add(append(clone(e), 0xB1, 0xB2, 0xB3), clone(e))
			if len(e) > 1 {
				add(clone(e[:len(e)-1]))
			}
		}
		add((&ref.VP9Desc{P: true, F: true, PDiff: []uint8{1, 2, 3}, PDiffExtraN: true}).Encode()) // too many P_DIFF
		add([]byte{0x20, 0x0A}, []byte{0x20, 0x0A, 0x00})                                          // SID 5: over the library's limit
		add([]byte{0xFF, 0xFF, 0xFF, 0xFF, 0xFF, 0xFF, 0xFF, 0xFF})
	case 6: // AV1
		pl := &codecs.AV1Payloader{}
		o := func(t uint8, n int) ref.OBU { return ref.OBU{Type: t, Payload: fill(n, byte(n*3+int(t)))} }
		add(cloneAll(pl.Payload(6, ref.AV1Stream([]ref.OBU{o(6, 14)}, false)))...)
		add(cloneAll(pl.Payload(200, ref.AV1Stream([]ref.OBU{o(1, 3), o(6, 5)}, false)))...)
		add(cloneAll(pl.Payload(200, ref.AV1Stream([]ref.OBU{o(6, 2), o(6, 2), o(6, 2), o(6, 2), o(6, 2)}, false)))...)
		add(cloneAll(pl.Payload(5, ref.AV1Stream([]ref.OBU{o(3, 1), o(4, 6)}, true)))...)
		// a packet with Z=1 and Y=1 whose last element starts another fragmented OBU
		add(cloneAll(pl.Payload(8, ref.AV1Stream([]ref.OBU{o(6, 9), o(6, 10)}, false)))...)
		add(cloneAll(pl.Payload(7, ref.AV1Stream([]ref.OBU{o(6, 7), o(3, 1), o(4, 9)}, false)))...)
		// large OBUs: 3-byte LEB128 sizes, one packet and a train of fragments
		add(cloneAll(pl.Payload(65535, ref.AV1Stream([]ref.OBU{o(6, 16384)}, false)))...)
		add(cloneAll(pl.Payload(9000, ref.AV1Stream([]ref.OBU{o(6, 20000)}, false)))...)
		add([]byte{0x00}, []byte{0x10}, []byte{0x10, 0x30}, []byte{0x88, 0x30, 0x01}, []byte{0x80, 0x30}, []byte{0x40, 0x02, 0x30, 0x01}, []byte{0xC0, 0x01, 0x30})
		add([]byte{0x00, 0x05, 0x30, 0x01}, []byte{0x20, 0x01, 0x30}, []byte{0x30, 0x01, 0x30, 0x01, 0x30, 0x30}, []byte{0x00, 0x80}, []byte{0x00, 0x80, 0x80, 0x80, 0x80, 0x80, 0x80, 0x80, 0x80, 0x80, 0x01})
		add([]byte{0x10, 0x80}, []byte{0x10, 0x32, 0x05, 0x01}, []byte{0x10, 0x32, 0x01, 0xAA}, []byte{0x10, 0x34}, []byte{0x00, 0x00, 0x00}, []byte{0x10, 0x12, 0x00}, []byte{0x18, 0x0A, 0x01, 0x02})
	case 9: // Opus
		add([]byte{0x00}, []byte{0xFC, 0x01, 0x02}, fill(40, 1), []byte{0xFF})
	}
	c09CorpusCache[fam] = out
	return out
}

func c09Histories(c *mc.Ctx) {
	kind := c.Pick(c09Kinds)
	corpus := c09Corpus(kind)
	maxDepth := 3
	if c.Thorough() {
		maxDepth = 4
	}
	depth := 1 + c.Pick(maxDepth+1)
	if depth == 4 && len(corpus) > 32 {
		corpus = c08SubCorpusOf(corpus, 32)
	}
	if depth == maxDepth+1 {
		// long histories over a spread of the corpus
		depth = 6
		corpus = c08SubCorpusOf(corpus, 7)
	}
	toggle := c09SetOptions(c, kind, depth <= 2 && kind != 9)
	defer c09SetOptions(c, kind, false)
	idx := make([]int, depth)
	for i := range idx {
		idx[i] = c.Pick(len(corpus))
	}
	desc := func() string {
		s := c09KindNames[kind] + fmt.Sprintf(" (zero-allocation %v, DONL switched between calls %v) history", c09ZeroAlloc, toggle)
		for _, k := range idx {
			s += " " + hx(corpus[k])
		}
		return s
	}
	if c.Verbose() {
		c.Notef("%s", desc())
	}
	a := c09New(kind)
	var b *c09Recv
	if c09Stateful(kind) {
		b = c09New(kind)
	}
	var lastErr error
	for i, k := range idx {
		in := corpus[k]
		var other []byte
		if i > 0 {
			other = corpus[idx[i-1]]
		}
		if toggle {
			v := (i+kind)%2 == 0
			c09DONLNow = &v
		}
		bufA, intact := guard(in)
		out, err, meta := a.step(bufA, other)
		c.Ops(3)
		lastErr = err
		if !bytes.Equal(bufA, in) || !intact() {
			c.Failf("input-modified", "%s: step %d changed its input", desc(), i)
		}
		if c09PerPacket(kind) {
			f := c09New(kind)
			fo, ferr, fmeta := f.step(clone(in), other)
			if (err == nil) != (ferr == nil) || !bytes.Equal(out, fo) || (err == nil && meta != fmeta) {
				c.Failf("reuse-differs", "%s: step %d on the reused receiver gives (%s, err=%v, %s); a fresh receiver gives (%s, err=%v, %s)", desc(), i, hx(out), err, meta, hx(fo), ferr, fmeta)
			}
		}
		if b != nil {
			keep := clone(out)
			scribble(bufA) // the caller reuses its buffer
			bo, berr, bmeta := b.step(clone(in), other)
			if (err == nil) != (berr == nil) || !bytes.Equal(keep, bo) || meta != bmeta {
				c.Failf("retained-caller-memory", "%s: step %d on the instance whose earlier input buffers were overwritten gives (%s, err=%v); the twin fed untouched copies gives (%s, err=%v)", desc(), i, hx(keep), err, hx(bo), berr)
			}
		}
	}
	if lastErr == nil {
		c.NonTrivial()
	}
	c.Outcome(fmt.Sprintf("%s depth=%d ok=%v", c09KindNames[kind], depth, lastErr == nil))
}

func c08SubCorpusOf(all [][]byte, k int) [][]byte {
	var out [][]byte
	for i := 0; i < k; i++ {
		out = append(out, all[i*len(all)/k])
	}
	return out
}

// c09WideStruct builds the idx-th wide structure of a family; n is the number of structures.
func c09WideStruct(fam, idx int) (payload []byte, desc string, n int) {
	counts := []int{1, 2, 3, 16, 255, 256, 257, 300}
	switch fam {
	case 0: // VP9: every N_G, five R patterns, N_S 0 / 7
		n = 256 * 5 * 2
		ng, rpat, ns := idx%256, idx/256%5, idx/256/5
		d := &ref.VP9Desc{V: true, G: true, B: true, I: true, PictureID: 0x21, NG: uint8(ng)}
		if ns == 1 {
			d.NS, d.Y = 7, true
			for i := 0; i < 8; i++ {
				d.Width, d.Height = append(d.Width, uint16(100+i)), append(d.Height, uint16(200+i))
			}
		}
		for i := 0; i < ng; i++ {
			r := []int{0, 1, 2, 3, i % 4}[rpat]
			d.PGTID, d.PGU = append(d.PGTID, uint8(i%8)), append(d.PGU, i%2 == 0)
			pd := []uint8{}
			for j := 0; j < r; j++ {
				pd = append(pd, uint8(i+j+1))
			}
			d.PGPDiff = append(d.PGPDiff, pd)
		}
		return append(d.Encode(), 0xAB, 0xCD), fmt.Sprintf("VP9 descriptor N_G=%d R-pattern %d N_S=%d", ng, rpat, d.NS), n
	case 1: // H264 STAP-A
		n = len(counts) * 2
		k, sz := counts[idx%len(counts)], 2+idx/len(counts)
		var us [][]byte
		for i := 0; i < k; i++ {
			us = append(us, ref.H264Unit(uint8(1+i%5), 2, sz, byte(i)))
		}
		return ref.H264StapAPayload(us), fmt.Sprintf("STAP-A of %d units of %d bytes", k, sz), n
	case 2: // H265 AP
		n = len(counts) * 2
		k, donl := counts[idx%len(counts)], idx/len(counts) == 1
		var us [][]byte
		var donds []uint8
		for i := 0; i < k; i++ {
			us = append(us, ref.H265Unit(uint8(1+i%9), 0, 1, 3+i%2, byte(i)))
			if i > 0 {
				donds = append(donds, uint8(i))
			}
		}
		var dv *uint16
		if donl {
			v := uint16(0xFFFE)
			dv = &v
		} else {
			donds = nil
		}
		return ref.H265AP(us, dv, donds), fmt.Sprintf("H265 AP of %d units donl=%v", k, donl), n
	default: // AV1 aggregation packets
		ecounts := []int{1, 2, 3, 4, 32, 255, 256, 300}
		n = len(ecounts) + 3
		if idx >= len(ecounts) { // W = 1..3: last element without a length
			w := idx - len(ecounts) + 1
			p := []byte{byte(w<<4) | 0x08}
			for i := 0; i < w; i++ {
				e := (&ref.OBU{Type: 6, Payload: fill(3+i, byte(i))}).Bytes(false)
				if i < w-1 {
					p = append(p, ref.Leb128(uint64(len(e)))...)
				}
				p = append(p, e...)
			}
			return p, fmt.Sprintf("AV1 packet W=%d", w), n
		}
		k := ecounts[idx]
		p := []byte{0x08}
		for i := 0; i < k; i++ {
			e := (&ref.OBU{Type: uint8(3 + i%4), Payload: fill(1+i%3, byte(i))}).Bytes(false)
			p = append(p, ref.Leb128(uint64(len(e)))...)
			p = append(p, e...)
		}
		return p, fmt.Sprintf("AV1 packet W=0 with %d elements", k), n
	}
}

var c09WideKinds = [][]int{{5}, {0, 1}, {2, 3}, {6, 7, 8}}

var c09BigOBU = []int{16383, 16384, 1<<21 - 1, 1 << 21, 1<<21 + 5}

func c09Wide(c *mc.Ctx) {
	fam := c.Pick(5)
	if fam == 4 {
		// large OBUs through the stateful AV1 receivers
		kind := 6 + c.Pick(3)
		size := mc.From(c, c09BigOBU)
		mtu := mc.From(c, []int{1200, 65535})
		if mtu == 1200 && size > 1<<20 && !c.Thorough() {
			mtu = 9000
		}
		stream := ref.AV1Stream([]ref.OBU{{Type: 1, Payload: fill(4, 1)}, {Type: 6, Payload: fill(size, 3)}}, c.Bool())
		pkts := (&codecs.AV1Payloader{}).Payload(uint16(mtu), stream)
		if c.Verbose() {
			c.Notef("%s: OBU of %d bytes as %d packets at mtu %d", c09KindNames[kind], size, len(pkts), mtu)
		}
		a, b := c09New(kind), c09New(kind)
		total := 0
		for i, pk := range pkts {
			buf := clone(pk)
			out, err, _ := a.step(buf, nil)
			keep := clone(out)
			scribble(buf)
			bo, berr, _ := b.step(clone(pk), nil)
			if (err == nil) != (berr == nil) || !bytes.Equal(keep, bo) {
				c.Failf("retained-caller-memory", "%s, OBU of %d bytes at mtu %d: packet %d on the instance whose earlier buffers were overwritten gives %d bytes err=%v, the twin %d bytes err=%v", c09KindNames[kind], size, mtu, i, len(keep), err, len(bo), berr)
			}
			total += len(out)
		}
		c.Ops(2 * len(pkts))
		if total > size {
			c.NonTrivial()
		}
		c.Outcome(fmt.Sprintf("%s big-obu out>=size:%v", c09KindNames[kind], total > size))
		return
	}
	_, _, n := c09WideStruct(fam, 0)
	idx := c.Pick(n)
	kinds := c09WideKinds[fam]
	kind := kinds[c.Pick(len(kinds))]
	full, desc, _ := c09WideStruct(fam, idx)
	if c.Verbose() {
		c.Notef("%s: %s (%d bytes)", c09KindNames[kind], desc, len(full))
	}
	cases := 0
	for cut := 0; cut <= len(full); cut++ {
		if cut >= 24 && cut%7 != 0 && cut < len(full)-6 {
			continue
		}
		c09Single(c, kind, full[:cut])
		cases++
	}
	c.Cases(cases - 1)
	c.NonTrivial()
	c.Outcome(c09KindNames[kind] + " wide")
}

// c09Runs: 150 payloads into one receiver: state that only matters after many calls.
func c09Runs(c *mc.Ctx) {
	kind := c.Pick(c09Kinds)
	corpus := c09Corpus(kind)
	stride := mc.From(c, []int{1, 2, 3, 5, 7, 11})
	first := c.Pick(12)
	toggle := c09SetOptions(c, kind, kind != 9)
	defer c09SetOptions(c, kind, false)
	a := c09New(kind)
	var b *c09Recv
	if c09Stateful(kind) {
		b = c09New(kind)
	}
	ok := 0
	for i := 0; i < 150; i++ {
		in := corpus[(first+i*stride)%len(corpus)]
		var other []byte
		if i > 0 {
			other = corpus[(first+(i-1)*stride)%len(corpus)]
		}
		if toggle {
			v := (i/3)%2 == 0
			c09DONLNow = &v
		}
		bufA, intact := guard(in)
		out, err, meta := a.step(bufA, other)
		if !bytes.Equal(bufA, in) || !intact() {
			c.Failf("input-modified", "%s run stride %d from %d: step %d changed its input", c09KindNames[kind], stride, first, i)
		}
		if err == nil {
			ok++
		}
		if c09PerPacket(kind) {
			f := c09New(kind)
			fo, ferr, fmeta := f.step(clone(in), other)
			if (err == nil) != (ferr == nil) || !bytes.Equal(out, fo) || (err == nil && meta != fmeta) {
				c.Failf("reuse-differs", "%s run stride %d from %d: step %d (%s) on the reused receiver gives (%s, err=%v, %s); a fresh receiver gives (%s, err=%v, %s)", c09KindNames[kind], stride, first, i, hx(in), hx(out), err, meta, hx(fo), ferr, fmeta)
			}
		}
		if b != nil {
			keep := clone(out)
			scribble(bufA)
			bo, berr, bmeta := b.step(clone(in), other)
			if (err == nil) != (berr == nil) || !bytes.Equal(keep, bo) || meta != bmeta {
				c.Failf("retained-caller-memory", "%s run stride %d from %d: step %d on the instance whose earlier input buffers were overwritten gives (%s, err=%v); the twin gives (%s, err=%v)", c09KindNames[kind], stride, first, i, hx(keep), err, hx(bo), berr)
			}
		}
	}
	c.Ops(450)
	if ok > 0 {
		c.NonTrivial()
	}
	c.Outcome(c09KindNames[kind] + " run")
}
