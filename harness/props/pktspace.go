package props

import (
	"bytes"
	"fmt"

	"github.com/pion/rtp"

	"verif/mc"
	"verif/ref"
)

// Packet space shared by C01, C04 and C20: rtp.Packet values built through the public
// API only, together with the syntactic model they stand for.

const (
	spaceReduced = iota
	spaceQuick
	spaceThorough
)

type fixedFields struct {
	version  uint8
	marker   bool
	pt       uint8
	seq      uint16
	ts, ssrc uint32
}

var fixedPresets = []fixedFields{
	{2, false, 96, 1234, 0x01020304, 0xCAFEBABE},
	{3, true, 127, 65535, 0xFFFFFFFF, 0xFFFFFFFF},
	{0, false, 0, 0, 0, 0},
	{1, true, 1, 32768, 0x80000000, 1},
}

var (
	oneByteIDs      = []uint8{1, 2, 7, 14}
	oneByteLens     = []int{1, 2, 3, 4, 15, 16}
	oneByteLensTiny = []int{1, 3, 16}
	twoByteIDs      = []uint8{1, 14, 15, 16, 255}
	twoByteIDsTiny  = []uint8{1, 16, 255}
	twoByteLens     = []int{0, 1, 2, 3, 16, 17, 254, 255}
	twoByteLensTiny = []int{0, 1, 255}
	legacyProfiles  = []uint16{0x0000, 0x1234, 0xBEDD, 0x1001, 0xFFFF}
	legacyWords     = []int{0, 1, 2, 64}
)

func pickDistinctID(c *mc.Ctx, ids []uint8, used []uint8) uint8 {
	var rest []uint8
	for _, id := range ids {
		dup := false
		for _, u := range used {
			if u == id {
				dup = true
			}
		}
		if !dup {
			rest = append(rest, id)
		}
	}
	return mc.From(c, rest)
}

// genExtension decides the extension configuration and applies it to h through the
// public API; it returns the model elements.
func genExtension(c *mc.Ctx, h *rtp.Header, w *ref.Wire, level int) {
	kind := c.Pick(4)
	set := func(id uint8, val []byte) {
		if err := h.SetExtension(id, val); err != nil {
			c.Failf("setextension-refused", "SetExtension(%d, %d bytes) on profile %#x refused a legal value: %v", id, len(val), h.ExtensionProfile, err)
		}
		w.Items = append(w.Items, ref.Item{Kind: ref.ItemElem, Elem: ref.Elem{ID: id, Val: clone(val)}})
	}
	switch kind {
	case 0:
		return
	case 1: // one-byte
		w.X, w.Profile = true, ref.ProfileOneByte
		counts := []int{0, 1, 2, 3, 14}
		if level == spaceReduced {
			counts = []int{0, 1, 2}
		}
		n := mc.From(c, counts)
		preset := true
		if n > 0 {
			preset = c.Bool()
		}
		if preset {
			h.Extension, h.ExtensionProfile = true, ref.ProfileOneByte
		}
		if n == 14 {
			for id := 1; id <= 14; id++ {
				set(uint8(id), fill((id*5)%16+1, byte(id)))
			}
			return
		}
		lens := oneByteLens
		if level == spaceReduced || (level == spaceQuick && n == 3) {
			lens = oneByteLensTiny
		}
		var used []uint8
		for i := 0; i < n; i++ {
			id := pickDistinctID(c, oneByteIDs, used)
			used = append(used, id)
			set(id, fill(mc.From(c, lens), id*16+byte(i)))
		}
	case 2: // two-byte
		w.X, w.Profile = true, ref.ProfileTwoByte
		counts := []int{0, 1, 2, 3}
		if level == spaceReduced {
			counts = []int{0, 1, 2}
		}
		n := mc.From(c, counts)
		ids, lens := twoByteIDs, twoByteLens
		if level == spaceReduced || (level == spaceQuick && n == 3) {
			ids, lens = twoByteIDsTiny, twoByteLensTiny
		}
		var used []uint8
		for i := 0; i < n; i++ {
			id := pickDistinctID(c, ids, used)
			used = append(used, id)
			l := mc.From(c, lens)
			if i == 0 {
				// a fresh header selects the two-byte profile by itself for 17..255 bytes
				if l >= 17 && c.Bool() {
					// auto-selected
				} else {
					h.Extension, h.ExtensionProfile = true, ref.ProfileTwoByte
				}
			}
			set(id, fill(l, id+byte(i)))
		}
		if n == 0 {
			h.Extension, h.ExtensionProfile = true, ref.ProfileTwoByte
		}
	case 3: // legacy
		w.X = true
		w.Profile = mc.From(c, legacyProfiles)
		words := mc.From(c, legacyWords)
		h.Extension, h.ExtensionProfile = true, w.Profile
		val := fill(4*words, 0x77)
		if err := h.SetExtension(0, val); err != nil {
			c.Failf("setextension-refused", "legacy SetExtension(0, %d bytes) refused: %v", len(val), err)
		}
		w.Legacy = clone(val)
	}
}

// genPacket builds one packet of the space.
func genPacket(c *mc.Ctx, level int, fixed fixedFields) (*rtp.Packet, *ref.Wire) {
	p := &rtp.Packet{}
	w := &ref.Wire{}
	p.Version, p.Marker, p.PayloadType, p.SequenceNumber, p.Timestamp, p.SSRC = fixed.version, fixed.marker, fixed.pt, fixed.seq, fixed.ts, fixed.ssrc
	w.Version, w.Marker, w.PT, w.Seq, w.TS, w.SSRC = fixed.version, fixed.marker, fixed.pt, fixed.seq, fixed.ts, fixed.ssrc

	ccs := []int{0, 1, 2, 15}
	if level == spaceReduced {
		ccs = []int{0, 1, 15}
	}
	cc := mc.From(c, ccs)
	for i := 0; i < cc; i++ {
		v := uint32(0xA1B2C3D4) + uint32(i)*0x01010101
		p.CSRC = append(p.CSRC, v)
		w.CSRC = append(w.CSRC, v)
	}
	genExtension(c, &p.Header, w, level)

	plens := []int{0, 1, 2, 3, 4, 5, 100, 1200}
	if level == spaceReduced {
		plens = []int{0, 1, 5}
	}
	pl := mc.From(c, plens)
	if pl > 0 || (level != spaceReduced && c.Bool()) {
		p.Payload = fill(pl, 0x40)
	}
	w.Payload = clone(p.Payload)

	pads := []int{0, 1, 2, 4, 255}
	if level == spaceReduced {
		pads = []int{0, 1, 2, 5, 255}
	}
	pad := mc.From(c, pads)
	if pad > 0 {
		p.Padding, p.PaddingSize = true, byte(pad)
		w.PadSize = pad
	}
	return p, w
}

func describeWire(w *ref.Wire) string {
	s := fmt.Sprintf("v=%d m=%v pt=%d seq=%d ts=%#x ssrc=%#x cc=%d", w.Version, w.Marker, w.PT, w.Seq, w.TS, w.SSRC, len(w.CSRC))
	if w.X {
		s += fmt.Sprintf(" ext{profile=%#04x", w.Profile)
		if w.Is8285() {
			for _, it := range w.Items {
				switch it.Kind {
				case ref.ItemElem:
					s += fmt.Sprintf(" id%d:%dB", it.Elem.ID, len(it.Elem.Val))
				case ref.ItemPad:
					s += fmt.Sprintf(" pad%d", it.N)
				case ref.ItemTerminator:
					s += fmt.Sprintf(" term+%dB", len(it.Junk))
				}
			}
			if w.ExtraPadWords > 0 {
				s += fmt.Sprintf(" +%d pad words", w.ExtraPadWords)
			}
		} else {
			s += fmt.Sprintf(" legacy:%dB", len(w.Legacy))
		}
		s += "}"
	}
	s += fmt.Sprintf(" payload=%dB", len(w.Payload))
	if w.PadSize > 0 {
		s += fmt.Sprintf(" padding=%d(fill %02x)", w.PadSize, w.PadFill)
	}
	return s
}

// compareHeader checks a decoded header against the model; it returns a description of
// the first difference or "".
func compareHeader(h *rtp.Header, w *ref.Wire) string {
	switch {
	case h.Version != w.Version:
		return fmt.Sprintf("version %d, want %d", h.Version, w.Version)
	case h.Padding != (w.PadSize > 0):
		return fmt.Sprintf("padding flag %v, want %v", h.Padding, w.PadSize > 0)
	case h.Extension != w.X:
		return fmt.Sprintf("extension flag %v, want %v", h.Extension, w.X)
	case h.Marker != w.Marker:
		return fmt.Sprintf("marker %v, want %v", h.Marker, w.Marker)
	case h.PayloadType != w.PT:
		return fmt.Sprintf("payload type %d, want %d", h.PayloadType, w.PT)
	case h.SequenceNumber != w.Seq:
		return fmt.Sprintf("sequence number %d, want %d", h.SequenceNumber, w.Seq)
	case h.Timestamp != w.TS:
		return fmt.Sprintf("timestamp %#x, want %#x", h.Timestamp, w.TS)
	case h.SSRC != w.SSRC:
		return fmt.Sprintf("ssrc %#x, want %#x", h.SSRC, w.SSRC)
	case len(h.CSRC) != len(w.CSRC):
		return fmt.Sprintf("%d CSRCs, want %d", len(h.CSRC), len(w.CSRC))
	}
	for i := range w.CSRC {
		if h.CSRC[i] != w.CSRC[i] {
			return fmt.Sprintf("CSRC[%d] %#x, want %#x", i, h.CSRC[i], w.CSRC[i])
		}
	}
	if !w.X {
		if ids := h.GetExtensionIDs(); len(ids) != 0 {
			return fmt.Sprintf("extension ids %v on a packet without extension", ids)
		}
		return ""
	}
	if h.ExtensionProfile != w.Profile {
		return fmt.Sprintf("extension profile %#x, want %#x", h.ExtensionProfile, w.Profile)
	}
	want := w.Elements()
	ids := h.GetExtensionIDs()
	if len(ids) != len(want) {
		return fmt.Sprintf("extension ids %v, want %d elements %s", ids, len(want), describeElems(want))
	}
	for i, e := range want {
		if ids[i] != e.ID {
			return fmt.Sprintf("extension ids %v, want %s", ids, describeElems(want))
		}
		got := h.GetExtension(e.ID)
		if !bytes.Equal(got, e.Val) {
			return fmt.Sprintf("extension id %d value %s, want %s", e.ID, hx(got), hx(e.Val))
		}
		// presence is what GetExtensionIDs says (checked above); for an empty value nil and
		// empty are not distinguished
	}
	return ""
}

func describeElems(es []ref.Elem) string {
	s := "["
	for i, e := range es {
		if i > 0 {
			s += " "
		}
		s += fmt.Sprintf("%d:%s", e.ID, hx(e.Val))
	}
	return s + "]"
}

func comparePacket(p *rtp.Packet, w *ref.Wire) string {
	if d := compareHeader(&p.Header, w); d != "" {
		return d
	}
	if !bytes.Equal(p.Payload, w.Payload) {
		return fmt.Sprintf("payload %s, want %s", hx(p.Payload), hx(w.Payload))
	}
	if int(p.PaddingSize) != w.PadSize {
		return fmt.Sprintf("padding size %d, want %d", p.PaddingSize, w.PadSize)
	}
	return ""
}

// wireBox lets hand-built layouts fill a model step by step.
type wireBox struct{ w *ref.Wire }

func wireOf(w *ref.Wire) *wireBox { return &wireBox{w} }

func newWire(f fixedFields) *wireBox {
	return &wireBox{&ref.Wire{Version: f.version, Marker: f.marker, PT: f.pt, Seq: f.seq, TS: f.ts, SSRC: f.ssrc}}
}

func (b *wireBox) setProfile(p uint16) { b.w.X, b.w.Profile = true, p }

func (b *wireBox) addElem(id uint8, val []byte) {
	b.w.Items = append(b.w.Items, ref.Item{Kind: ref.ItemElem, Elem: ref.Elem{ID: id, Val: val}})
}
