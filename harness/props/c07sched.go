//go:build c07sched

package props

import (
	"fmt"
	"sort"
	"strings"

	"github.com/anishathalye/porcupine"
	"github.com/pion/rtp"
	sched "github.com/pion/rtp/verifsync"

	"verif/mc"
)

func init() {
	for _, b := range []int{0, 1, 2, -1} {
		b := b
		name := fmt.Sprintf("interleavings-preemption-bound-%d", b)
		if b < 0 {
			name = "interleavings-unbounded"
		}
		c07Extra = append(c07Extra, mc.Scenario{Name: name, Tiers: "qt", ShardDepth: 2, Run: func(c *mc.Ctx) { c07Schedule(c, b) }})
	}
	// init order is by file name: c07.go has registered the property already
	for i := range All {
		if All[i].ID == "C07" {
			All[i].Scenarios = append(c07Extra, All[i].Scenarios...)
		}
	}
}

type c07In struct{ next bool }
type c07St struct {
	seq uint16
	roc uint64
}

func c07Model(start uint16) porcupine.Model {
	return porcupine.Model{
		Init: func() interface{} { return c07St{start - 1, 0} },
		Step: func(state, input, output interface{}) (bool, interface{}) {
			s := state.(c07St)
			if input.(c07In).next {
				s.seq++
				if s.seq == 0 {
					s.roc++
				}
				return output.(uint64) == uint64(s.seq), s
			}
			return output.(uint64) == s.roc, s
		},
		Equal: func(a, b interface{}) bool { return a == b },
	}
}

// op lists: every sequence over {N(ext), R(ollOverCount)} of length 1..3
var c07Lists = []string{"N", "R", "NN", "NR", "RN", "RR", "NNN", "NNR", "NRN", "NRR", "RNN", "RNR", "RRN", "RRR"}

var c07ConfigCache [2][][]string

// c07Configs enumerates the assignments of operation lists to 2 and 3 threads (threads
// are symmetric: lists are taken in non-decreasing order).
func c07Configs(thorough bool) [][]string {
	k := 0
	if thorough {
		k = 1
	}
	if c07ConfigCache[k] != nil {
		return c07ConfigCache[k]
	}
	lists := c07Lists
	var out [][]string
	for i := range lists {
		for j := i; j < len(lists); j++ {
			out = append(out, []string{lists[i], lists[j]})
		}
	}
	for i := range lists {
		for j := i; j < len(lists); j++ {
			for l := j; l < len(lists); l++ {
				total := len(lists[i]) + len(lists[j]) + len(lists[l])
				if !thorough && total > 7 {
					continue // quick: at most 7 operations over 3 threads
				}
				out = append(out, []string{lists[i], lists[j], lists[l]})
			}
		}
	}
	c07ConfigCache[k] = out
	return out
}

func c07Schedule(c *mc.Ctx, bound int) {
	start := mc.From(c, []uint16{65535, 65534, 0, 7})
	cfg := mc.From(c, c07Configs(c.Thorough()))
	c.Barrier()
	s := rtp.NewFixedSequencer(start)
	var hist []porcupine.Operation
	bodies := make([]func(), len(cfg))
	for t := range cfg {
		t := t
		bodies[t] = func() {
			for _, op := range cfg[t] {
				call := sched.Clock()
				var out uint64
				if op == 'N' {
					out = uint64(s.NextSequenceNumber())
				} else {
					out = s.RollOverCount()
				}
				hist = append(hist, porcupine.Operation{ClientId: t, Input: c07In{op == 'N'}, Call: int64(call), Output: out, Return: int64(sched.Clock())})
			}
		}
	}
	r := sched.Run(c, bound, 10000, bodies)
	c.Ops(len(hist))
	desc := func() string {
		var hs []string
		for _, o := range hist {
			name := "RollOverCount"
			if o.Input.(c07In).next {
				name = "Next"
			}
			hs = append(hs, fmt.Sprintf("t%d:%s[%d..%d]=%d", o.ClientId, name, o.Call, o.Return, o.Output))
		}
		return fmt.Sprintf("start=%d threads=%v schedule=%v preemptions=%d history: %s", start, cfg, r.Schedule, r.Preemptions, strings.Join(hs, " "))
	}
	if c.Verbose() {
		c.Notef("%s", desc())
	}
	if len(r.Panics) > 0 {
		c.Failf("panic-in-thread", "%s: %v", desc(), r.Panics)
	}
	if r.Deadlock {
		c.Failf("deadlock", "%s: no thread can run but not all have finished (or the execution exceeded 10000 steps)", desc())
	}
	if len(r.Races) > 0 {
		c.Failf("data-race", "%s: %s and %s are not ordered by happens-before (address %#x)", desc(), r.Races[0].First, r.Races[0].Second, r.Races[0].Addr)
	}
	// direct invariants: the values handed out are exactly start, start+1, ... once each
	var vals []int
	zeros := 0
	for _, o := range hist {
		if o.Input.(c07In).next {
			vals = append(vals, int(uint16(o.Output.(uint64))-start))
			if o.Output.(uint64) == 0 {
				zeros++
			}
		}
	}
	sort.Ints(vals)
	for i, v := range vals {
		if v != i {
			c.Failf("duplicate-or-gap", "%s: values handed out are not %d..%d each exactly once", desc(), start, int(start)+len(vals)-1)
		}
	}
	if !porcupine.CheckOperations(c07Model(start), hist) {
		c.Failf("not-linearizable", "%s: no sequential order of the calls consistent with their real-time order explains the results", desc())
	}
	if r.Contended > 0 || zeros > 0 {
		c.NonTrivial()
	}
	var key []string
	for _, o := range hist {
		key = append(key, fmt.Sprintf("%d:%d", o.ClientId, o.Output))
	}
	c.Outcome(strings.Join(key, ","))
}
