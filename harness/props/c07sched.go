//go:build c07sched

package props

import (
	"fmt"
	"sort"
	"strings"

	"github.com/anishathalye/porcupine"
	"github.com/pion/rtp"
	sched "github.com/pion/rtp/verifsync"

	"verif/mc"
)

func init() {
	for _, b := range []int{0, 1, 2, -1} {
		b := b
		name := fmt.Sprintf("interleavings-preemption-bound-%d", b)
		if b < 0 {
			name = "interleavings-unbounded"
		}
		c07Extra = append(c07Extra, mc.Scenario{Name: name, Tiers: "qt", ShardDepth: 2, Run: func(c *mc.Ctx) { c07Schedule(c, b, false) }})
	}
	// development aid (tier "x"): the same small configurations with and without pruning must
	// produce the same set of result vectors
	c07Extra = append(c07Extra, mc.Scenario{Name: "validate-small-unpruned", Tiers: "x", ShardDepth: 2, Run: func(c *mc.Ctx) { c07Validate(c, false) }})
	c07Extra = append(c07Extra, mc.Scenario{Name: "validate-small-pruned", Tiers: "x", ShardDepth: 2, Run: func(c *mc.Ctx) { c07Validate(c, true) }})
	c07Extra = append(c07Extra, mc.Scenario{Name: "interleavings-4-to-6-threads-state-pruned", Tiers: "qt", ShardDepth: 2, Run: func(c *mc.Ctx) { c07Schedule(c, -1, true) }})
	// init order is by file name: c07.go has registered the property already
	for i := range All {
		if All[i].ID == "C07" {
			All[i].Scenarios = append(All[i].Scenarios, c07Extra...) // the sweeps of bounded cost first, the interleavings last
		}
	}
}

type c07In struct{ next bool }
type c07St struct {
	seq uint16
	roc uint64
}

func c07Model(start uint16) porcupine.Model {
	return porcupine.Model{
		Init: func() interface{} { return c07St{start - 1, 0} },
		Step: func(state, input, output interface{}) (bool, interface{}) {
			s := state.(c07St)
			if input.(c07In).next {
				s.seq++
				if s.seq == 0 {
					s.roc++
				}
				return output.(uint64) == uint64(s.seq), s
			}
			return output.(uint64) == s.roc, s
		},
		Equal: func(a, b interface{}) bool { return a == b },
	}
}

// op lists: every sequence over {N(ext), R(ollOverCount)} of length 1..3
var c07Lists = []string{"N", "R", "NN", "NR", "RN", "RR", "NNN", "NNR", "NRN", "NRR", "RNN", "RNR", "RRN", "RRR"}

var c07ConfigCache [2][][]string

// c07Configs enumerates the assignments of operation lists to 2 and 3 threads (threads
// are symmetric: lists are taken in non-decreasing order).
func c07Configs(thorough bool) [][]string {
	k := 0
	if thorough {
		k = 1
	}
	if c07ConfigCache[k] != nil {
		return c07ConfigCache[k]
	}
	lists := c07Lists
	var out [][]string
	for i := range lists {
		for j := i; j < len(lists); j++ {
			out = append(out, []string{lists[i], lists[j]})
		}
	}
	for i := range lists {
		for j := i; j < len(lists); j++ {
			for l := j; l < len(lists); l++ {
				total := len(lists[i]) + len(lists[j]) + len(lists[l])
				if !thorough && total > 7 {
					continue // quick: at most 7 operations over 3 threads
				}
				out = append(out, []string{lists[i], lists[j], lists[l]})
			}
		}
	}
	c07ConfigCache[k] = out
	return out
}

// c07Large: 4-6 threads; explored without a preemption bound, with state-revisit pruning.
var c07LargeCache [][]string

func c07LargeConfigs() [][]string {
	if c07LargeCache != nil {
		return c07LargeCache
	}
	var out [][]string
	// 4 threads: every non-decreasing assignment of lists of 1-2 operations
	small := []string{"N", "R", "NN", "NR", "RN"}
	for a := range small {
		for b := a; b < len(small); b++ {
			for d := b; d < len(small); d++ {
				for e := d; e < len(small); e++ {
					out = append(out, []string{small[a], small[b], small[d], small[e]})
				}
			}
		}
	}
	// 5 and 6 threads: single operations, and one thread with two
	for _, n := range []int{5, 6} {
		for r := 0; r <= 2; r++ { // number of RollOverCount callers
			cfg := make([]string, n)
			for k := range cfg {
				cfg[k] = "N"
				if k < r {
					cfg[k] = "R"
				}
			}
			out = append(out, cfg)
			for _, tail := range []string{"NN", "NR", "RN"} {
				cfg2 := append([]string{}, cfg...)
				cfg2[n-1] = tail
				out = append(out, cfg2)
			}
		}
	}
	// biggest harnesses first: under a change that breaks the property the budget may not
	// reach the end of the list, and the larger harnesses contain the behaviours of the smaller
	for i, j := 0, len(out)-1; i < j; i, j = i+1, j-1 {
		out[i], out[j] = out[j], out[i]
	}
	c07LargeCache = out
	return out
}

type c07Start struct {
	random bool
	v      uint16
}

// c07Stub answers the random generator with a fixed value during a controlled execution.
type c07Stub struct{ v int }

func (g *c07Stub) Intn(n int) int {
	if g.v >= n {
		return n - 1
	}
	return g.v
}
func (g *c07Stub) Uint32() uint32                    { return 0 }
func (g *c07Stub) Uint64() uint64                    { return 0 }
func (g *c07Stub) GenerateString(int, string) string { return "" }

var c07Visited = map[string]map[uint64]struct{}{}

var c07ValidateMode = 0 // 1: small configs unpruned, 2: small configs pruned

func c07Validate(c *mc.Ctx, prune bool) {
	c07ValidateMode = 1
	if prune {
		c07ValidateMode = 2
	}
	defer func() { c07ValidateMode = 0 }()
	c07Schedule(c, -1, prune)
}

func c07Schedule(c *mc.Ctx, bound int, large bool) {
	starts := []c07Start{{false, 65535}, {false, 65534}, {false, 0}, {false, 7}, {true, 100}}
	configs := c07Configs(c.Thorough())
	if large {
		starts = []c07Start{{false, 65535}, {false, 65534}, {false, 65533}, {false, 65532}, {false, 65531}, {false, 65530}, {false, 65529}, {false, 0}, {true, 100}}
		configs = c07LargeConfigs()
	}
	if c07ValidateMode != 0 {
		starts = []c07Start{{false, 65535}, {false, 65534}, {true, 100}}
		configs = c07Configs(false)
	}
	var si, ci int
	if large {
		ci = c.Pick(len(configs))
		si = c.Pick(len(starts))
	} else {
		si = c.Pick(len(starts))
		ci = c.Pick(len(configs))
	}
	cfg := configs[ci]
	if large {
		// start values in the order of how close the wrap falls to the harness's last
		// NextSequenceNumber call: under a change that breaks the property the budget may not
		// reach the end of the list
		nN := 0
		for _, l := range cfg {
			nN += strings.Count(l, "N")
		}
		key := func(s c07Start) int {
			if s.random || s.v == 0 {
				return 1 << 20
			}
			d := (65536 - int(s.v)) - nN
			if d < 0 {
				d = -d
			}
			return d
		}
		ordered := append([]c07Start{}, starts...)
		sort.SliceStable(ordered, func(a, b int) bool { return key(ordered[a]) < key(ordered[b]) })
		starts = ordered
	}
	st := starts[si]
	c.Barrier()
	var visited map[uint64]struct{}
	if large || bound < 0 {
		// one visited set per (start, configuration): states are only comparable within one harness
		k := fmt.Sprintf("%v/%d/%d", large, si, ci)
		if c07Visited[k] == nil {
			c07Visited = map[string]map[uint64]struct{}{k: {}} // DFS finishes one configuration before the next
		}
		visited = c07Visited[k]
	}
	var s rtp.Sequencer
	restore := func() {}
	start := st.v
	if st.random {
		restore = rtp.VerifSetRandom(&c07Stub{int(st.v)})
		s = rtp.NewRandomSequencer()
	} else {
		s = rtp.NewFixedSequencer(st.v)
	}
	var hist []porcupine.Operation
	bodies := make([]func(), len(cfg))
	for t := range cfg {
		t := t
		bodies[t] = func() {
			for _, op := range cfg[t] {
				call := sched.Clock()
				sched.MarkCall()
				var out uint64
				if op == 'N' {
					out = uint64(s.NextSequenceNumber())
				} else {
					out = s.RollOverCount()
				}
				sched.MarkReturn(out)
				hist = append(hist, porcupine.Operation{ClientId: t, Input: c07In{op == 'N'}, Call: int64(call), Output: out, Return: int64(sched.Clock())})
			}
		}
	}
	// threads with the same operation list are one class
	classes := make([]int, len(cfg))
	for i := range cfg {
		for j := 0; j <= i; j++ {
			if cfg[j] == cfg[i] {
				classes[i] = j
				break
			}
		}
	}
	r := sched.Run(c, bound, 10000, visited, classes, bodies)
	restore()
	if r.Pruned {
		c.Prune()
	}
	if st.random {
		// the property fixes only "below 2^15": the start is read off the smallest value handed out
		min := -1
		for _, o := range hist {
			if o.Input.(c07In).next && (min < 0 || int(o.Output.(uint64)) < min) {
				min = int(o.Output.(uint64))
			}
		}
		if min >= 1<<15 {
			c.Failf("random-start-range", "random sequencer handed out %d as its smallest value", min)
		}
		if min >= 0 {
			start = uint16(min)
		}
	}
	c.Ops(len(hist))
	desc := func() string {
		var hs []string
		for _, o := range hist {
			name := "RollOverCount"
			if o.Input.(c07In).next {
				name = "Next"
			}
			hs = append(hs, fmt.Sprintf("t%d:%s[%d..%d]=%d", o.ClientId, name, o.Call, o.Return, o.Output))
		}
		return fmt.Sprintf("start=%d (random sequencer: %v) threads=%v schedule=%v preemptions=%d history: %s", start, st.random, cfg, r.Schedule, r.Preemptions, strings.Join(hs, " "))
	}
	if c.Verbose() {
		c.Notef("%s", desc())
	}
	if len(r.Panics) > 0 {
		c.Failf("panic-in-thread", "%s: %v", desc(), r.Panics)
	}
	if r.Deadlock {
		c.Failf("deadlock", "%s: no thread can run but not all have finished (or the execution exceeded 10000 steps)", desc())
	}
	if len(r.Races) > 0 {
		c.Failf("data-race", "%s: %s and %s are not ordered by happens-before (address %#x)", desc(), r.Races[0].First, r.Races[0].Second, r.Races[0].Addr)
	}
	// direct invariants: the values handed out are exactly start, start+1, ... once each
	var vals []int
	zeros := 0
	for _, o := range hist {
		if o.Input.(c07In).next {
			vals = append(vals, int(uint16(o.Output.(uint64))-start))
			if o.Output.(uint64) == 0 {
				zeros++
			}
		}
	}
	sort.Ints(vals)
	for i, v := range vals {
		if v != i {
			c.Failf("duplicate-or-gap", "%s: values handed out are not %d..%d each exactly once", desc(), start, int(start)+len(vals)-1)
		}
	}
	if !porcupine.CheckOperations(c07Model(start), hist) {
		c.Failf("not-linearizable", "%s: no sequential order of the calls consistent with their real-time order explains the results", desc())
	}
	if r.Contended > 0 || zeros > 0 {
		c.NonTrivial()
	}
	var key []string
	for _, o := range hist {
		key = append(key, fmt.Sprintf("%d:%d", o.ClientId, o.Output))
	}
	c.Outcome(strings.Join(key, ","))
}
