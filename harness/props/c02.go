package props

import (
	"bytes"
	"encoding/binary"
	"fmt"
	"unsafe"

	"github.com/pion/rtp"

	"verif/mc"
	"verif/ref"
)

func init() {
	register(mc.Property{
		ID:   "C02",
		Rule: "one case = one byte string decoded by Packet.Unmarshal and Header.Unmarshal (fresh receivers), or one ordered pair/triple of byte strings decoded into the same receiver; non-trivial = the (last) input is accepted",
		Assumptions: []string{
			"element header at the block end: a one-byte / two-byte block of 1-2 words whose last octet(s) announce a value of every length 1..16 / 0..40, followed by 0..41 bytes, in exact-capacity buffers and in windows of a larger array",
			"fixed-header lies: first byte all 256 values x second byte {00,FF} x every total length 0..(length the first byte claims)+6 x 3 fill patterns",
			"extension-block lies: CC {0,1,15} x P x profile {BEDE,1000,1001,0000,FFFF} x length field {0,1,2,3,0xFFFF} x every body string up to 4 bytes (quick) / 5 bytes (thorough) over a 13-symbol alphabet of pad/element-header/boundary bytes x 9 tails (RTP padding counts 0,1,2,5,len,255 ...)",
			"large length fields: X=1 with profile {BEDE,1000,1234}, extension length field {0x3FFF,0x4000,0x4001,0x8000,0xFFFF} words and an input that is 1 byte short of / exactly / 5 or 1300 bytes longer than the claimed block, body of zero bytes, pattern bytes or one maximal element chain, P bit on/off",
			"when the strict reference parser accepts an input (and no id-15 element is involved) header length, payload, padding size and every extension value are compared with the RFC layout",
			"mutations: every truncation and every single-byte replacement by {00,01,0F,10,7F,80,FF,b^01,b^80} of the wire images of the C01 reduced space",
			"histories: a corpus of one representative per outcome class (about 250 inputs); all ordered pairs, and all triples over the first 40 (quick) / 90 (thorough)",
			"near-identical histories: 6 valid images (CSRC list, one-byte / two-byte / legacy block, payload, RTP padding) each followed or preceded, in the same receiver, by every copy of itself with one octet replaced by {b^01, b^80, 00, FF}: an input that differs from the receiver's previous one in a single field",
			"result of a reused receiver = return values and, on success, version/P/X/M/PT/seq/ts/SSRC, CSRC list, profile+ids+values if X, payload, padding size, and the re-marshalled bytes; state after a failed decode, nil vs empty slices and a stale ExtensionProfile while X is clear are not part of the result",
		},
		Scenarios: []mc.Scenario{
			{Name: "fixed-header-lies", Tiers: "qt", ShardDepth: 2, Run: c02FixedHeader},
			{Name: "extension-block-lies", Tiers: "qt", ShardDepth: 5, Run: c02ExtBlock},
			{Name: "element-header-at-the-block-end", Tiers: "qt", ShardDepth: 3, Run: c02HeaderAtEnd},
			{Name: "large-length-fields", Tiers: "qt", ShardDepth: 3, Run: c02Large},
			{Name: "mutations-of-valid-images", Tiers: "qt", ShardDepth: 4, Run: c02Mutations},
			{Name: "reuse-pairs", Tiers: "qt", ShardDepth: 2, Run: c02Pairs},
			{Name: "reuse-triples", Tiers: "qt", ShardDepth: 2, Run: c02Triples},
			{Name: "reuse-near-identical-pairs", Tiers: "qt", ShardDepth: 2, Run: c02NearPairs},
		},
	})
}

func offsetIn(buf, v []byte) int {
	return int(uintptr(unsafe.Pointer(unsafe.SliceData(v))) - uintptr(unsafe.Pointer(unsafe.SliceData(buf))))
}

// c02Decode decodes buf into fresh receivers and checks the single-decode clauses. It
// returns the outcome class and whether Packet.Unmarshal accepted.
func c02Decode(c *mc.Ctx, buf []byte) (string, bool) {
	return c02DecodeCap(c, clone(buf)) // exactly as much capacity as length
}

// c02DecodeCap decodes buf with whatever capacity the caller gave it.
func c02DecodeCap(c *mc.Ctx, buf []byte) (string, bool) {
	orig := clone(buf)
	var h rtp.Header
	n, herr := h.Unmarshal(buf)
	var p rtp.Packet
	perr := p.Unmarshal(buf)
	c.Ops(2)
	if !bytes.Equal(buf, orig) {
		c.Failf("input-modified", "Unmarshal(%s) changed its input", hx(orig))
	}
	if herr != nil {
		if perr == nil {
			c.Failf("packet-accepts-what-header-rejects", "Header.Unmarshal(%s) fails (%v) but Packet.Unmarshal succeeds", hx(buf), herr)
		}
		return "header-rejected", false
	}
	if n < 12 || n > len(buf) {
		c.Failf("header-length-outside-input", "Header.Unmarshal(%s) = %d for %d input bytes", hx(buf), n, len(buf))
	}
	c02Values(c, &h, buf, n)
	if perr != nil {
		return "packet-rejected", false
	}
	if n+len(p.Payload)+int(p.PaddingSize) != len(buf) {
		c.Failf("lengths-do-not-add-up", "Unmarshal(%s): header %d + payload %d + padding %d != %d input bytes", hx(buf), n, len(p.Payload), p.PaddingSize, len(buf))
	}
	if !p.Padding && p.PaddingSize != 0 {
		c.Failf("padding-size-without-flag", "Unmarshal(%s): P clear but PaddingSize %d", hx(buf), p.PaddingSize)
	}
	if p.Padding && p.PaddingSize != buf[len(buf)-1] {
		c.Failf("padding-size", "Unmarshal(%s): PaddingSize %d, last byte %d", hx(buf), p.PaddingSize, buf[len(buf)-1])
	}
	if p.Payload == nil && len(buf) > n {
		// zero-length payloads may be nil or empty
	}
	if len(p.Payload) > 0 && offsetIn(buf, p.Payload) != n {
		c.Failf("payload-not-input-bytes", "Unmarshal(%s): payload starts at offset %d, header length %d", hx(buf), offsetIn(buf, p.Payload), n)
	}
	if !bytes.Equal(p.Payload, buf[n:n+len(p.Payload)]) {
		c.Failf("payload-not-input-bytes", "Unmarshal(%s): payload %s", hx(buf), hx(p.Payload))
	}
	c02Values(c, &p.Header, buf, n)
	// header fields agree between the two entry points
	if d := headerProj(&h).diff(headerProj(&p.Header)); d != "" {
		c.Failf("header-vs-packet", "Unmarshal(%s): Header.Unmarshal and Packet.Unmarshal disagree: %s", hx(buf), d)
	}
	// when the input is a well-formed packet under the strict reference parser, "the
	// corresponding input bytes" are known exactly
	if rp, err := ref.Parse(buf); err == nil && !rp.Terminated {
		if n != rp.HeaderLen {
			c.Failf("header-length-differs-from-layout", "Unmarshal(%s): header length %d, the RFC layout gives %d", hx(buf), n, rp.HeaderLen)
		}
		if !bytes.Equal(p.Payload, rp.Payload) || int(p.PaddingSize) != rp.PadSize {
			c.Failf("payload-not-input-bytes", "Unmarshal(%s): payload %s padding %d, the RFC layout gives %s / %d", hx(buf), hx(p.Payload), p.PaddingSize, hx(rp.Payload), rp.PadSize)
		}
		if p.Extension {
			seen := map[uint8]bool{}
			for _, e := range rp.Elems {
				if seen[e.ID] {
					continue
				}
				seen[e.ID] = true
				if got := p.GetExtension(e.ID); !bytes.Equal(got, e.Val) {
					c.Failf("value-not-input-bytes", "Unmarshal(%s): value of id %d = %s, the RFC layout gives %s", hx(buf), e.ID, hx(got), hx(e.Val))
				}
			}
		}
	}
	cls := fmt.Sprintf("ok x=%v", p.Extension)
	if p.Extension {
		k := "legacy"
		if p.ExtensionProfile == 0xBEDE {
			k = "one"
		} else if p.ExtensionProfile == 0x1000 {
			k = "two"
		}
		cls += fmt.Sprintf(" %s ids=%d", k, minI(len(p.GetExtensionIDs()), 4))
	}
	cls += fmt.Sprintf(" p=%v pad=%d pl=%d cc=%d", p.Padding, minI(int(p.PaddingSize), 3), minI(len(p.Payload), 2), minI(len(p.CSRC), 2))
	return cls, true
}

func headerProj(h *rtp.Header) proj {
	return project(&rtp.Packet{Header: *h})
}

// c02Values: every extension value is exactly the corresponding input bytes.
func c02Values(c *mc.Ctx, h *rtp.Header, buf []byte, n int) {
	if !h.Extension {
		if ids := h.GetExtensionIDs(); ids != nil {
			c.Failf("ids-without-extension", "Unmarshal(%s): X clear but ids %v", hx(buf), ids)
		}
		return
	}
	lo := 12 + 4*len(h.CSRC) + 4
	ids := h.GetExtensionIDs()
	seen := map[uint8]bool{}
	last := lo
	for _, id := range ids {
		if seen[id] {
			continue
		}
		seen[id] = true
		v := h.GetExtension(id)
		if len(v) == 0 {
			// an empty value occupies no input byte (Go gives no address for it either; nil and
			// empty are not distinguished: presence is what GetExtensionIDs says)
			continue
		}
		off := offsetIn(buf, v)
		if off < 0 || off+len(v) > len(buf) {
			// not a view of the input but an owned copy: "exactly the corresponding input bytes"
			// then means equal to the input bytes at some place in the extension block behind
			// the previous value
			off = -1
			for o := last; o+len(v) <= n; o++ {
				if bytes.Equal(buf[o:o+len(v)], v) {
					off = o
					break
				}
			}
			if off < 0 {
				c.Failf("value-not-input-bytes", "Unmarshal(%s): value %s of id %d does not occur in the input inside the extension block [%d,%d) behind the previous value (from %d)", hx(buf), hx(v), id, lo, n, last)
			}
		} else if off < last || off+len(v) > n {
			c.Failf("value-not-input-bytes", "Unmarshal(%s): value of id %d is not a sub-slice of the input inside the extension block [%d,%d) after the previous value: offset %d length %d", hx(buf), id, lo, n, off, len(v))
		}
		last = off + len(v)
	}
}

func c02FixedHeader(c *mc.Ctx) {
	b0 := byte(c.Pick(256))
	b1 := mc.From(c, []byte{0x00, 0xFF})
	pat := c.Pick(3)
	claimed := 12 + 4*int(b0&0x0F)
	if b0&0x10 != 0 {
		claimed += 4
	}
	accepted := 0
	classes := map[string]bool{}
	for L := 0; L <= claimed+6; L++ {
		var buf []byte
		if L > 0 || pat != 0 {
			buf = make([]byte, L)
		} // pat 0, L 0: nil input
		for i := range buf {
			switch pat {
			case 1:
				buf[i] = 0xFF
			case 2:
				buf[i] = byte(i)
			}
		}
		if L > 0 {
			buf[0] = b0
		}
		if L > 1 {
			buf[1] = b1
		}
		cls, ok := c02Decode(c, buf)
		classes[cls] = true
		if ok {
			accepted++
		}
	}
	c.Cases(claimed + 6)
	if c.Verbose() {
		c.Notef("first byte %02x second %02x fill pattern %d, lengths 0..%d: %d accepted", b0, b1, pat, claimed+6, accepted)
	}
	if accepted > 0 {
		c.NonTrivial()
	}
	for k := range classes {
		c.Outcome(k)
	}
}

var c02Sym = []byte{0x00, 0x01, 0x02, 0x0F, 0x10, 0x11, 0x1F, 0x20, 0x7F, 0x80, 0xF0, 0xFE, 0xFF}

var c02Tails = [][]byte{nil, {0x00}, {0x01}, {0x02}, {0x05}, {0xFF}, {0xAA, 0x01}, {0xAA, 0xBB, 0x03}, {0xAA, 0xBB, 0x02}}

func c02ExtBlock(c *mc.Ctx) {
	cc := mc.From(c, []int{0, 1, 15})
	pbit := c.Bool()
	profile := mc.From(c, []uint16{0xBEDE, 0x1000, 0x1001, 0x0000, 0xFFFF})
	lenField := mc.From(c, []uint16{0, 1, 2, 3, 0xFFFF})
	maxBody := 4
	if c.Thorough() {
		maxBody = 5
	}
	bl := c.Pick(maxBody + 1)
	if cc == 15 && bl > 3 {
		return // the CSRC count does not interact with the body: long bodies only for CC 0/1
	}
	body := make([]byte, bl)
	for i := range body {
		body[i] = mc.From(c, c02Sym)
	}
	tail := mc.From(c, c02Tails)
	buf := make([]byte, 12, 12+4*cc+4+len(body)+len(tail))
	buf[0] = 0x90 | byte(cc)
	if pbit {
		buf[0] |= 0x20
	}
	buf[1] = 0x60
	for i := 0; i < cc; i++ {
		buf = append(buf, 0xC0, 0xC1, 0xC2, byte(i))
	}
	buf = binary.BigEndian.AppendUint16(buf, profile)
	buf = binary.BigEndian.AppendUint16(buf, lenField)
	buf = append(buf, body...)
	buf = append(buf, tail...)
	if c.Verbose() {
		c.Notef("cc=%d P=%v profile=%#04x length-field=%d body=%s tail=%s: %s", cc, pbit, profile, lenField, hx(body), hx(tail), hx(buf))
	}
	cls, ok := c02Decode(c, buf)
	if ok {
		c.NonTrivial()
	}
	c.Outcome(cls)
}

// c02HeaderAtEnd: the last octet(s) of the extension block are an element header that announces
// a value of every possible length, and 0..40 bytes follow the block: the value lies (partly)
// outside the block, inside the packet, or outside the input; with exact-capacity buffers and
// with windows into a larger array.
func c02HeaderAtEnd(c *mc.Ctx) {
	twoByte := c.Bool()
	words := 1 + c.Pick(2) // block length in words
	maxAnnounced := 16
	if twoByte {
		maxAnnounced = 40
	}
	announced := c.Pick(maxAnnounced + 1)
	if !twoByte && announced == 0 {
		announced = 1
	}
	tail := c.Pick(42)
	spare := c.Bool()
	buf := []byte{0x90, 0x60, 0, 1, 0, 0, 0, 2, 0, 0, 0, 3, 0xBE, 0xDE, 0, byte(words)}
	body := make([]byte, 4*words)
	if twoByte {
		buf[12], buf[13] = 0x10, 0x00
		body[len(body)-2], body[len(body)-1] = 7, byte(announced)
	} else {
		body[len(body)-1] = 7<<4 | byte(announced-1)
	}
	buf = append(buf, body...)
	for i := 0; i < tail; i++ {
		buf = append(buf, byte(0xA0+i))
	}
	if spare {
		whole := append(clone(buf), 0xE1, 0xE2, 0xE3, 0xE4, 0xE5, 0xE6, 0xE7, 0xE8, 0xE9, 0xEA, 0xEB, 0xEC, 0xED, 0xEE, 0xEF, 0xF0, 0xF1, 0xF2, 0xF3, 0xF4)
		buf = whole[:len(buf)]
	} else {
		buf = clone(buf)
		buf = buf[:len(buf):len(buf)]
	}
	if c.Verbose() {
		c.Notef("two-byte form %v, block of %d words ending in the header of an element of %d bytes, %d bytes behind the block, spare capacity %v: %s", twoByte, words, announced, tail, spare, hx(buf))
	}
	cls, ok := c02DecodeCap(c, buf)
	if ok {
		c.NonTrivial()
	}
	c.Outcome(cls)
}

func c02Mutations(c *mc.Ctx) {
	p, w := genPacket(c, spaceReduced, fixedPresets[c.Pick(2)])
	img, err := p.Marshal()
	if err != nil {
		c.Failf("marshal-failed", "%s: %v", describeWire(w), err)
	}
	cases := 0
	accepted := 0
	classes := map[string]bool{}
	try := func(b []byte) {
		cls, ok := c02Decode(c, b)
		classes[cls] = true
		cases++
		if ok {
			accepted++
		}
	}
	for i := 0; i <= len(img); i++ {
		try(clone(img[:i]))
	}
	hl := w.HeaderLen()
	for i := 0; i < len(img); i++ {
		if i > hl+1 && i < len(img)-2 {
			continue // payload / padding interior is not interpreted
		}
		for k := 0; k < len(c03MutVals)+2; k++ {
			var v byte
			switch {
			case k < len(c03MutVals):
				v = c03MutVals[k]
			case k == len(c03MutVals):
				v = img[i] ^ 0x01
			default:
				v = img[i] ^ 0x80
			}
			if v == img[i] {
				continue
			}
			m := clone(img)
			m[i] = v
			try(m)
		}
	}
	c.Cases(cases)
	if c.Verbose() {
		c.Notef("%s = %s: %d truncations and single-byte mutants, %d accepted", describeWire(w), hx(img), cases, accepted)
	}
	if accepted > 0 {
		c.NonTrivial()
	}
	for k := range classes {
		c.Outcome(k)
	}
}

// ---- histories ------------------------------------------------------------------

var c02CorpusCache [][]byte

// c02Corpus builds one representative input per outcome class, deterministically.
func c02Corpus(c *mc.Ctx) [][]byte {
	if c02CorpusCache != nil {
		return c02CorpusCache
	}
	seen := map[string]bool{}
	var out [][]byte
	add := func(b []byte) {
		cls, _ := c02Decode(c, b)
		if cls == "header-rejected" || cls == "packet-rejected" {
			cls += fmt.Sprintf(" len=%d x=%v", minI(len(b), 16), len(b) > 0 && b[0]&0x10 != 0)
		}
		if !seen[cls] {
			seen[cls] = true
			out = append(out, b)
		}
	}
	add(nil)
	add([]byte{})
	hdr := func(b0 byte, cc int) []byte {
		b := []byte{b0 | byte(cc), 0xE0, 0x12, 0x34, 1, 2, 3, 4, 5, 6, 7, 8}
		for i := 0; i < cc; i++ {
			b = append(b, 0xD0, 0xD1, 0xD2, byte(i))
		}
		return b
	}
	tails := [][]byte{nil, {0x01}, {0x02}, {0x00}, {0x07, 0x08, 0x03}, {0x07, 0x08, 0x09, 0x0A, 0x0B}, {0xFF}}
	for _, cc := range []int{0, 1, 2, 15} {
		for _, pb := range []byte{0x00, 0x20} {
			for _, t := range tails {
				add(append(hdr(0x80|pb, cc), t...))
			}
			blocks := [][]byte{
				{0xBE, 0xDE, 0, 0},
				{0xBE, 0xDE, 0, 1, 0x10, 0xAA, 0, 0},
				{0xBE, 0xDE, 0, 1, 0x12, 0xAA, 0xBB, 0xCC},
				{0xBE, 0xDE, 0, 2, 0x10, 0xAA, 0x21, 0xBB, 0xCC, 0, 0, 0},
				{0xBE, 0xDE, 0, 3, 0x10, 0xAA, 0x21, 0xBB, 0xCC, 0x30, 0xDD, 0x40, 0xEE, 0, 0, 0},
				{0xBE, 0xDE, 0, 2, 0x10, 0xAA, 0x10, 0xBB, 0x10, 0xCC, 0x10, 0xDD},
				{0xBE, 0xDE, 0, 1, 0xF0, 0xAA, 0x10, 0xBB},
				{0xBE, 0xDE, 0, 1, 0x00, 0x00, 0x00, 0x00},
				{0xBE, 0xDE, 0, 1, 0x1F, 0xAA, 0xBB, 0xCC},
				{0xBE, 0xDE, 0, 5, 0x1F, 1, 2, 3, 4, 5, 6, 7, 8, 9, 10, 11, 12, 13, 14, 15, 16, 0, 0, 0},
				{0x10, 0x00, 0, 0},
				{0x10, 0x00, 0, 1, 0x01, 0x00, 0x00, 0x00},
				{0x10, 0x00, 0, 1, 0x01, 0x02, 0xAA, 0xBB},
				{0x10, 0x00, 0, 2, 0x01, 0x01, 0xAA, 0xFF, 0x02, 0xBB, 0xCC, 0x00},
				{0x10, 0x00, 0, 1, 0x01, 0x05, 0xAA, 0xBB},
				{0x10, 0x00, 0, 1, 0x00, 0x00, 0x00, 0x01},
				{0x12, 0x34, 0, 0},
				{0x12, 0x34, 0, 1, 1, 2, 3, 4},
				{0x10, 0x01, 0, 2, 1, 2, 3, 4, 5, 6, 7, 8},
				{0xBE, 0xDE, 0, 9, 0x10},
				{0xBE, 0xDE, 0xFF, 0xFF},
				{0xBE, 0xDE},
			}
			for _, bl := range blocks {
				for _, t := range tails[:5] {
					add(append(append(hdr(0x90|pb, cc), bl...), t...))
				}
			}
		}
	}
	for L := 1; L < 12; L++ {
		add(hdr(0x80, 0)[:L])
	}
	add(hdr(0x8F, 0))
	add(hdr(0x80, 15)[:40])
	c02CorpusCache = out
	return out
}

type c02Result struct {
	n      int
	herr   bool
	perr   bool
	hp, pp proj
	hm, pm []byte
	hmErr  bool
	pmErr  bool

	probeErr bool
	probe    proj
	probeM   []byte
}

func c02Observe(h *rtp.Header, p *rtp.Packet, buf []byte) c02Result {
	var r c02Result
	n, err := h.Unmarshal(buf)
	r.n, r.herr = n, err != nil
	if err == nil {
		r.hp = headerProj(h)
		m, e := h.Marshal()
		r.hm, r.hmErr = m, e != nil
	}
	err = p.Unmarshal(buf)
	r.perr = err != nil
	if err == nil {
		r.pp = project(p)
		m, e := p.Marshal()
		r.pm, r.pmErr = m, e != nil
		// probe: what the decoded value does next must not depend on the receiver's past either
		q := p.Clone()
		id := uint8(5)
		if q.Extension && q.ExtensionProfile != 0xBEDE && q.ExtensionProfile != 0x1000 {
			id = 0
		}
		perr := q.SetExtension(id, []byte{0x5A, 0x5B, 0x5C, 0x5D})
		r.probeErr = perr != nil
		r.probe = project(q)
		r.probeM, _ = q.Marshal()
	}
	return r
}

func (a c02Result) diff(b c02Result) string {
	switch {
	case a.herr != b.herr:
		return fmt.Sprintf("Header.Unmarshal error %v vs %v", a.herr, b.herr)
	case a.perr != b.perr:
		return fmt.Sprintf("Packet.Unmarshal error %v vs %v", a.perr, b.perr)
	case !a.herr && a.n != b.n:
		return fmt.Sprintf("header length %d vs %d", a.n, b.n)
	}
	if !a.herr {
		if d := a.hp.diff(b.hp); d != "" {
			return "Header: " + d
		}
		if a.hmErr != b.hmErr || !bytes.Equal(a.hm, b.hm) {
			return fmt.Sprintf("Header re-marshals to %s vs %s", hx(a.hm), hx(b.hm))
		}
	}
	if !a.perr {
		if d := a.pp.diff(b.pp); d != "" {
			return "Packet: " + d
		}
		if a.pmErr != b.pmErr || !bytes.Equal(a.pm, b.pm) {
			return fmt.Sprintf("Packet re-marshals to %s vs %s", hx(a.pm), hx(b.pm))
		}
		if a.probeErr != b.probeErr {
			return fmt.Sprintf("a following SetExtension fails %v vs %v", a.probeErr, b.probeErr)
		}
		if d := a.probe.diff(b.probe); d != "" {
			return "after a following SetExtension: " + d
		}
		if !bytes.Equal(a.probeM, b.probeM) {
			return fmt.Sprintf("after a following SetExtension the packet marshals to %s vs %s", hx(a.probeM), hx(b.probeM))
		}
	}
	return ""
}

func c02History(c *mc.Ctx, idx []int) {
	corpus := c02Corpus(c)
	in := make([][]byte, len(idx))
	for i, k := range idx {
		in[i] = corpus[k]
	}
	c02HistoryOf(c, in)
}

// c02HistoryOf decodes the inputs one after the other into one receiver and compares what the
// last decode gives with a fresh receiver.
func c02HistoryOf(c *mc.Ctx, in [][]byte) {
	var h rtp.Header
	var p rtp.Packet
	var last c02Result
	bufs := make([][]byte, len(in))
	for i, b := range in {
		bufs[i] = clone(b)
		last = c02Observe(&h, &p, bufs[i])
	}
	c.Ops(4 * len(in))
	var fh rtp.Header
	var fp rtp.Packet
	fb := clone(in[len(in)-1])
	fresh := c02Observe(&fh, &fp, fb)
	if c.Verbose() {
		s := ""
		for _, b := range bufs {
			s += " " + hx(b)
		}
		c.Notef("decode into one receiver:%s", s)
	}
	if d := last.diff(fresh); d != "" {
		s := ""
		for _, b := range bufs[:len(bufs)-1] {
			s += " " + hx(b)
		}
		c.Failf("reuse-differs", "decoding %s into a receiver that previously decoded%s differs from a fresh receiver (used vs fresh): %s", hx(fb), s, d)
	}
	if !fresh.perr {
		c.NonTrivial()
	}
	c.Outcome(fmt.Sprintf("herr=%v perr=%v", fresh.herr, fresh.perr))
}

func c02Pairs(c *mc.Ctx) {
	k := len(c02Corpus(c))
	c02History(c, []int{c.Pick(k), c.Pick(k)})
}

func c02Triples(c *mc.Ctx) {
	k := 40
	if c.Thorough() {
		k = 90
	}
	if n := len(c02Corpus(c)); k > n {
		k = n
	}
	c02History(c, []int{c.Pick(k), c.Pick(k), c.Pick(k)})
}

func c02Large(c *mc.Ctx) {
	profile := mc.From(c, []uint16{0xBEDE, 0x1000, 0x1234})
	words := mc.From(c, []int{0x3FFF, 0x4000, 0x4001, 0x8000, 0xFFFF})
	extra := mc.From(c, []int{-1, 0, 5, 1300})
	content := c.Pick(3)
	pbit := c.Bool()
	cc := mc.From(c, []int{0, 2})
	total := 12 + 4*cc + 4 + 4*words + extra
	buf := make([]byte, total)
	buf[0] = 0x90 | byte(cc)
	if pbit {
		buf[0] |= 0x20
	}
	buf[1] = 0x60
	o := 12 + 4*cc
	binary.BigEndian.PutUint16(buf[o:], profile)
	binary.BigEndian.PutUint16(buf[o+2:], uint16(words))
	body := buf[o+4:]
	switch content {
	case 1:
		for i := range body {
			body[i] = byte(i*13 + 1)
		}
	case 2: // a chain of maximal elements
		for i := 0; i+18 <= len(body) && i < 4*words-18; {
			if profile == 0x1000 {
				body[i], body[i+1] = byte(1+i%250), 15
				i += 17
			} else {
				body[i] = 0x1F
				i += 17
			}
		}
	}
	if pbit && total > 0 {
		buf[total-1] = 3
	}
	if c.Verbose() {
		c.Notef("profile %#04x length field %#x words, input %d bytes (%+d relative to the claimed block), content %d, P=%v", profile, words, total, extra, content, pbit)
	}
	cls, ok := c02Decode(c, buf)
	if ok {
		c.NonTrivial()
	}
	c.Outcome(cls)
}

// c02NearBases: valid images in which every kind of field is present.
var c02NearBases = [][]byte{
	// CC=2, no extension, payload
	{0x82, 0x60, 0x12, 0x34, 0x01, 0x02, 0x03, 0x04, 0xCA, 0xFE, 0xBA, 0xBE, 0, 0, 0, 0x11, 0, 0, 0, 0x22, 0xA1, 0xA2, 0xA3},
	// CC=1, one-byte block with two elements, payload, padding 2
	{0xB1, 0xE0, 0xFF, 0xFF, 0x80, 0x00, 0x00, 0x00, 0x00, 0x00, 0x00, 0x01, 0xDE, 0xAD, 0xBE, 0xEF, 0xBE, 0xDE, 0x00, 0x02, 0x11, 0x51, 0x52, 0x20, 0x61, 0x00, 0x00, 0x00, 0xA1, 0xA2, 0x00, 0x02},
	// two-byte block, two elements (one empty), payload
	{0x90, 0x00, 0x00, 0x01, 0x00, 0x00, 0x00, 0x01, 0x11, 0x22, 0x33, 0x44, 0x10, 0x00, 0x00, 0x02, 0x07, 0x02, 0x51, 0x52, 0x09, 0x00, 0x00, 0x00, 0xA1},
	// legacy block of one word, CC=2, no payload
	{0x92, 0x7F, 0x80, 0x00, 0xFF, 0xFF, 0xFF, 0xFF, 0x00, 0x00, 0x00, 0x00, 0x0A, 0x0B, 0x0C, 0x0D, 0x1A, 0x1B, 0x1C, 0x1D, 0x12, 0x34, 0x00, 0x01, 0x71, 0x72, 0x73, 0x74},
	// plain header, padding only
	{0xA0, 0x60, 0x00, 0x00, 0x00, 0x00, 0x00, 0x00, 0x00, 0x00, 0x00, 0x00, 0x00, 0x00, 0x00, 0x04},
	// CC=15
	append([]byte{0x8F, 0x08, 0x00, 0x07, 0x00, 0x00, 0x10, 0x00, 0x01, 0x01, 0x01, 0x01}, fill(60+2, 0x31)...),
}

func c02NearPairs(c *mc.Ctx) {
	base := mc.From(c, c02NearBases)
	pos := c.Pick(len(base))
	variant := clone(base)
	b := base[pos]
	variant[pos] = []byte{b ^ 0x01, b ^ 0x80, 0x00, 0xFF}[c.Pick(4)]
	if variant[pos] == b {
		return // this replacement leaves the octet as it is
	}
	if c.Bool() {
		c02HistoryOf(c, [][]byte{base, variant})
	} else {
		c02HistoryOf(c, [][]byte{variant, base})
	}
}
