package racepass

import (
	"bytes"
	"fmt"
	"os"
	"strconv"
	"sync"
	"testing"

	"github.com/pion/rtp"
	"github.com/pion/rtp/codecs"
)

// The codec harness bodies free-running: several goroutines, each with an instance of its own,
// do the same work at the same time under the race detector; every goroutine must get what a
// single goroutine gets. Supplementary to the (sequential) exhaustive checks of C08, C09 and
// C16: state shared between instances at package level shows here as a data race or as mixed-up
// results, and nowhere else.

type codecCase struct {
	name   string
	mkPay  func() rtp.Payloader
	mkDep  func() rtp.Depacketizer
	mtu    uint16
	inputs [][]byte
}

func pat(n int, seed byte) []byte {
	b := make([]byte, n)
	for i := range b {
		b[i] = byte(1 + (i*7+int(seed))%250)
	}
	return b
}

func annexb(units ...[]byte) []byte {
	var b []byte
	for i, u := range units {
		if i%2 == 0 {
			b = append(b, 0, 0, 0, 1)
		} else {
			b = append(b, 0, 0, 1)
		}
		b = append(b, u...)
	}
	return b
}

func nal(hdr byte, n int, seed byte) []byte { return append([]byte{hdr}, pat(n, seed)...) }

func hevc(typ byte, n int, seed byte) []byte { return append([]byte{typ << 1, 1}, pat(n, seed)...) }

func obu(typ byte, n int, seed byte) []byte {
	return append([]byte{typ<<3 | 2, byte(n)}, pat(n, seed)...)
}

func codecCases() []codecCase {
	audio := [][]byte{pat(1, 1), pat(160, 2), pat(333, 3), pat(7, 4), pat(1200, 5)}
	h264 := [][]byte{
		annexb(nal(0x67, 5, 1), nal(0x68, 3, 2), nal(0x65, 40, 3)),
		annexb(nal(0x41, 9, 4)),
		annexb(nal(0x41, 100, 5), nal(0x41, 3, 6)),
		annexb(nal(0x67, 6, 7)),
		annexb(nal(0x68, 4, 8), nal(0x65, 25, 9)),
	}
	h265 := [][]byte{
		annexb(hevc(32, 5, 1), hevc(33, 6, 2), hevc(34, 4, 3), hevc(19, 50, 4)),
		annexb(hevc(1, 7, 5)),
		annexb(hevc(1, 90, 6), hevc(1, 3, 7), hevc(1, 4, 8)),
	}
	vpx := [][]byte{pat(10, 1), pat(45, 2), pat(1, 3), pat(130, 4)}
	vp9 := [][]byte{
		append([]byte{0x82, 0x49, 0x83, 0x42, 0x20, 0x00, 0xF0, 0x00, 0xB4, 0x00}, pat(40, 1)...),
		append([]byte{0x86}, pat(30, 2)...),
		append([]byte{0x86}, pat(3, 3)...),
	}
	var av1 [][]byte
	av1 = append(av1, append(append(obu(1, 4, 1), obu(6, 30, 2)...), obu(6, 5, 3)...))
	av1 = append(av1, obu(6, 60, 4))
	av1 = append(av1, append(obu(2, 0, 0), obu(6, 9, 5)...))
	return []codecCase{
		{"G711", func() rtp.Payloader { return &codecs.G711Payloader{} }, nil, 100, audio},
		{"G722", func() rtp.Payloader { return &codecs.G722Payloader{} }, nil, 100, audio},
		{"Opus", func() rtp.Payloader { return &codecs.OpusPayloader{} }, func() rtp.Depacketizer { return &codecs.OpusPacket{} }, 100, audio},
		{"H264", func() rtp.Payloader { return &codecs.H264Payloader{} }, func() rtp.Depacketizer { return &codecs.H264Packet{} }, 20, h264},
		{"H264/AVC", func() rtp.Payloader { return &codecs.H264Payloader{DisableStapA: true} }, func() rtp.Depacketizer { return &codecs.H264Packet{IsAVC: true} }, 20, h264},
		{"H265", func() rtp.Payloader { return &codecs.H265Payloader{} }, func() rtp.Depacketizer { return &codecs.H265Packet{} }, 24, h265},
		{"H265/DONL", func() rtp.Payloader { return &codecs.H265Payloader{AddDONL: true} }, nil, 24, h265},
		{"VP8", func() rtp.Payloader { return &codecs.VP8Payloader{EnablePictureID: true} }, func() rtp.Depacketizer { return &codecs.VP8Packet{} }, 20, vpx},
		{"VP9/flexible", func() rtp.Payloader {
			return &codecs.VP9Payloader{FlexibleMode: true, InitialPictureIDFn: func() uint16 { return 0x7FFE }}
		}, func() rtp.Depacketizer { return &codecs.VP9Packet{} }, 20, vp9},
		{"VP9", func() rtp.Payloader {
			return &codecs.VP9Payloader{InitialPictureIDFn: func() uint16 { return 5 }}
		}, func() rtp.Depacketizer { return &codecs.VP9Packet{} }, 24, vp9},
		{"AV1", func() rtp.Payloader { return &codecs.AV1Payloader{} }, func() rtp.Depacketizer { return &codecs.AV1Depacketizer{} }, 16, av1},
	}
}

// runCodec drives one payloader (and depacketizer) instance over the inputs and returns a
// transcript of everything it produced.
func runCodec(cs codecCase) string {
	var out bytes.Buffer
	p := cs.mkPay()
	var d rtp.Depacketizer
	if cs.mkDep != nil {
		d = cs.mkDep()
	}
	for _, in := range cs.inputs {
		buf := append([]byte{}, in...)
		frags := p.Payload(cs.mtu, buf)
		for i := range buf {
			buf[i] = 0xEE // the caller reuses its buffer
		}
		fmt.Fprintf(&out, "in %d -> %d fragments\n", len(in), len(frags))
		for _, f := range frags {
			fmt.Fprintf(&out, " %x\n", f)
			if d != nil {
				o, err := d.Unmarshal(append([]byte{}, f...))
				fmt.Fprintf(&out, "  dec %x %v head=%v\n", o, err != nil, d.IsPartitionHead(f))
			}
		}
	}
	return out.String()
}

func TestCodecInstancesFreeRunning(t *testing.T) {
	rounds := 30
	if s := os.Getenv("CODEC_RACE_ROUNDS"); s != "" {
		rounds, _ = strconv.Atoi(s)
	}
	const goroutines = 8
	cases := codecCases()
	want := make([]string, len(cases))
	for i, cs := range cases {
		want[i] = runCodec(cs)
		if again := runCodec(cs); again != want[i] {
			t.Fatalf("%s: two sequential runs of fresh instances differ", cs.name)
		}
	}
	for r := 0; r < rounds; r++ {
		var wg sync.WaitGroup
		got := make([][]string, goroutines)
		for g := 0; g < goroutines; g++ {
			wg.Add(1)
			go func(g int) {
				defer wg.Done()
				got[g] = make([]string, len(cases))
				// every goroutine walks the codecs from another starting point, so that different
				// codecs and equal codecs both run side by side
				for k := range cases {
					i := (k + g/2) % len(cases)
					got[g][i] = runCodec(cases[i])
				}
			}(g)
		}
		wg.Wait()
		for g := range got {
			for i := range cases {
				if got[g][i] != want[i] {
					t.Fatalf("round %d: %s on goroutine %d (instances of its own) produced something else than a single goroutine does:\n%s\nwant:\n%s", r, cases[i].name, g, got[g][i], want[i])
				}
			}
		}
	}
}
