package racepass

import (
	"bytes"
	"fmt"
	"os"
	"strconv"
	"sync"
	"testing"
	"time"

	"github.com/pion/rtp"
	"github.com/pion/rtp/codecs"
)

// The packet, header-extension and packetizer harness bodies free-running: several goroutines,
// each working on values of its own, under the race detector; every goroutine must get what a
// single goroutine gets. Supplementary to the sequential exhaustive checks of C01-C06 and
// C17-C20 (a scratch buffer or table at package level shows here and nowhere else).

func rtpTranscript(seed int) string {
	var out bytes.Buffer
	// packets: one-byte, two-byte and legacy blocks, CSRCs, padding
	for k := 0; k < 6; k++ {
		p := &rtp.Packet{Header: rtp.Header{Version: 2, Marker: k%2 == 0, PayloadType: uint8(96 + k), SequenceNumber: uint16(1000*seed + k), Timestamp: uint32(seed*7 + k), SSRC: 0xCAFE0000 + uint32(k)}}
		for i := 0; i < k%4; i++ {
			p.CSRC = append(p.CSRC, uint32(i+1)*0x01010101)
		}
		p.Payload = pat(5+3*k, byte(seed+k))
		switch k % 3 {
		case 0:
			_ = p.SetExtension(1, pat(1+k, 1))
			_ = p.SetExtension(5, pat(16, 2))
		case 1:
			_ = p.SetExtension(200, pat(20, 3))
			_ = p.SetExtension(3, []byte{})
		case 2:
			p.Extension, p.ExtensionProfile = true, 0x1234
			_ = p.SetExtension(0, pat(8, 4))
		}
		if k == 4 {
			p.Padding, p.PaddingSize = true, 7
		}
		b, err := p.Marshal()
		fmt.Fprintf(&out, "marshal %x %v size %d\n", b, err, p.MarshalSize())
		dst := make([]byte, p.MarshalSize()+2)
		n, err := p.MarshalTo(dst)
		fmt.Fprintf(&out, "marshalto %d %v %x\n", n, err, dst[:n])
		var q rtp.Packet
		err = q.Unmarshal(b)
		fmt.Fprintf(&out, "unmarshal %v ids %v payload %x pad %d\n", err, q.GetExtensionIDs(), q.Payload, q.PaddingSize)
		for _, id := range q.GetExtensionIDs() {
			fmt.Fprintf(&out, " ext %d %x\n", id, q.GetExtension(id))
		}
		c := q.Clone()
		_ = c.SetExtension(7, []byte{9})
		_ = q.DelExtension(1)
		cb, _ := c.Marshal()
		qb, _ := q.Marshal()
		fmt.Fprintf(&out, "clone %x orig %x\n", cb, qb)
		var h rtp.Header
		hn, herr := h.Unmarshal(b)
		hb, hmerr := h.Marshal()
		hdst := make([]byte, h.MarshalSize()+1)
		hm, hterr := h.MarshalTo(hdst)
		hc := h.Clone()
		hcb, _ := hc.Marshal()
		fmt.Fprintf(&out, "header %d %v marshal %x %v marshalto %d %v %x clone %x ids %v\n", hn, herr, hb, hmerr, hm, hterr, hdst[:hm], hcb, h.GetExtensionIDs())
	}
	// fixed-size extension codecs
	al, _ := rtp.AudioLevelExtension{Level: uint8(seed % 128), Voice: seed%2 == 0}.Marshal()
	tc, _ := rtp.TransportCCExtension{TransportSequence: uint16(seed * 257)}.Marshal()
	pd, _ := rtp.PlayoutDelayExtension{MinDelay: uint16(seed % 4096), MaxDelay: 4095}.Marshal()
	at := time.Unix(1700000000+int64(seed), int64(seed)*1000)
	as, _ := rtp.NewAbsSendTimeExtension(at).Marshal()
	ac, _ := rtp.NewAbsCaptureTimeExtensionWithCaptureClockOffset(at, time.Duration(seed)*time.Millisecond).Marshal()
	fmt.Fprintf(&out, "ext %x %x %x %x %x\n", al, tc, pd, as, ac)
	var dal rtp.AudioLevelExtension
	var dtc rtp.TransportCCExtension
	var dpd rtp.PlayoutDelayExtension
	var das rtp.AbsSendTimeExtension
	var dac rtp.AbsCaptureTimeExtension
	_ = dal.Unmarshal(al)
	_ = dtc.Unmarshal(tc)
	_ = dpd.Unmarshal(pd)
	_ = das.Unmarshal(as)
	_ = dac.Unmarshal(ac)
	fmt.Fprintf(&out, "dec %+v %+v %+v %d %v %v %v\n", dal, dtc, dpd, das.Timestamp, das.Estimate(at.Add(time.Second)).UnixNano(), dac.CaptureTime().UnixNano(), *dac.EstimatedCaptureClockOffsetDuration())
	// video layers allocation
	v := rtp.VLA{RTPStreamID: 1, RTPStreamCount: 2, HasResolutionAndFramerate: seed%2 == 0}
	for s := 0; s < 2; s++ {
		for sp := 0; sp <= seed%3; sp++ {
			v.ActiveSpatialLayer = append(v.ActiveSpatialLayer, rtp.SpatialLayer{RTPStreamID: s, SpatialID: sp, TargetBitrates: []int{100 + seed, 20000 * (sp + 1)}, Width: 640, Height: 360, Framerate: 30})
		}
	}
	vb, verr := v.Marshal()
	var dv rtp.VLA
	vn, derr := dv.Unmarshal(vb)
	fmt.Fprintf(&out, "vla %x %v -> %d %v %s\n", vb, verr, vn, derr, dv.String())
	// packetizer
	pk := rtp.NewPacketizer(64, 96, 0x1234, &codecs.G711Payloader{}, rtp.NewFixedSequencer(uint16(65530+seed%5)), 8000)
	for k := 0; k < 4; k++ {
		for _, p := range pk.Packetize(pat(20+60*k, byte(seed)), 160) {
			b, err := p.Marshal()
			fmt.Fprintf(&out, "pkt seq %d m %v %x %v\n", p.SequenceNumber, p.Marker, b[12:], err)
		}
		pk.SkipSamples(10)
		for _, p := range pk.GeneratePadding(1) {
			fmt.Fprintf(&out, "pad seq %d\n", p.SequenceNumber)
		}
	}
	return out.String()
}

func TestRTPFreeRunning(t *testing.T) {
	rounds := 30
	if s := os.Getenv("RTP_RACE_ROUNDS"); s != "" {
		rounds, _ = strconv.Atoi(s)
	}
	const goroutines = 8
	want := make([]string, goroutines)
	for g := range want {
		want[g] = rtpTranscript(g % 4)
	}
	for r := 0; r < rounds; r++ {
		var wg sync.WaitGroup
		got := make([]string, goroutines)
		for g := 0; g < goroutines; g++ {
			wg.Add(1)
			go func(g int) {
				defer wg.Done()
				got[g] = rtpTranscript(g % 4)
			}(g)
		}
		wg.Wait()
		for g := range got {
			if got[g] != want[g] {
				t.Fatalf("round %d: goroutine %d (values of its own) got something else than a single goroutine does", r, g)
			}
		}
	}
}
