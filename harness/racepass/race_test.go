// Package racepass runs the C07 harness bodies free-running (real sync package, real
// goroutines) under the Go race detector. It is supplementary to the controlled
// exploration: under a cooperative scheduler every hand-off is a happens-before edge,
// so the race detector is blind there.
package racepass

import (
	"os"
	"sort"
	"strconv"
	"sync"
	"testing"

	"github.com/pion/rtp"
)

func TestSequencerFreeRunning(t *testing.T) {
	rounds := 200
	if s := os.Getenv("C07_RACE_ROUNDS"); s != "" {
		rounds, _ = strconv.Atoi(s)
	}
	const goroutines, perG = 8, 6
	for r := 0; r < rounds; r++ {
		start := uint16(65535 - r%5)
		s := rtp.NewFixedSequencer(start)
		var wg sync.WaitGroup
		vals := make([][]uint16, goroutines)
		rocs := make([][]uint64, goroutines)
		for g := 0; g < goroutines; g++ {
			wg.Add(1)
			go func(g int) {
				defer wg.Done()
				for k := 0; k < perG; k++ {
					vals[g] = append(vals[g], s.NextSequenceNumber())
					rocs[g] = append(rocs[g], s.RollOverCount())
				}
			}(g)
		}
		wg.Wait()
		var all []int
		for g := range vals {
			for k, v := range vals[g] {
				all = append(all, int(v-start))
				// a value at or after the wrap implies the rollover was already counted
				if v < 1000 && rocs[g][k] < 1 {
					t.Fatalf("round %d: value %d handed out but RollOverCount read afterwards is %d", r, v, rocs[g][k])
				}
			}
		}
		sort.Ints(all)
		for i, v := range all {
			if v != i {
				t.Fatalf("round %d: values are not consecutive from %d: %v", r, start, all)
			}
		}
		if got := s.RollOverCount(); got != 1 {
			t.Fatalf("round %d: RollOverCount %d after one wrap", r, got)
		}
	}
}
