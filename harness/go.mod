module verif

go 1.20

require (
	github.com/anishathalye/porcupine v1.3.0
	github.com/pion/randutil v0.1.0
	github.com/pion/rtp v0.0.0
)

replace github.com/pion/rtp => /repo
