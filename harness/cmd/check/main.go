// Command check explores one property of pion/rtp.
package main

import (
	"verif/mc"
	"verif/props"
)

func main() { mc.Main(props.All) }
