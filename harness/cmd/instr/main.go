// Command instr rewrites a Go source file of pion/rtp for schedule exploration:
//   - import "sync" becomes the shim package (still named sync), so sync.Mutex is the
//     controlled mutex;
//   - sync.Yield() is inserted before every statement except Lock/Unlock/RLock/RUnlock
//     calls (scheduling points themselves) and defer statements;
//   - before each statement sync.Access(&loc, isWrite) is inserted for every receiver
//     field (mutex fields excluded) and package-level variable the statement mentions
//     outside nested blocks and outside sync/atomic calls.
package main

import (
	"fmt"
	"go/ast"
	"go/parser"
	"go/printer"
	"go/token"
	"os"
	"strconv"
)

const shim = "github.com/pion/rtp/verifsync"

func call(name string, args ...ast.Expr) ast.Stmt {
	return &ast.ExprStmt{X: &ast.CallExpr{Fun: &ast.SelectorExpr{X: ast.NewIdent("sync"), Sel: ast.NewIdent(name)}, Args: args}}
}

func isSyncPoint(st ast.Stmt) bool {
	switch s := st.(type) {
	case *ast.DeferStmt:
		return true
	case *ast.ExprStmt:
		if c, ok := s.X.(*ast.CallExpr); ok {
			if sel, ok := c.Fun.(*ast.SelectorExpr); ok {
				switch sel.Sel.Name {
				case "Lock", "Unlock", "RLock", "RUnlock":
					return true
				}
			}
		}
	}
	return false
}

type instr struct {
	fields   map[string]bool // non-mutex fields of struct types declared in the file
	pkgVars  map[string]bool
	receiver string
	ids      map[string]int // static identity of every shared location
	inAtomic bool
}

func (in *instr) id(name string) int {
	if v, ok := in.ids[name]; ok {
		return v
	}
	in.ids[name] = len(in.ids) + 1
	return in.ids[name]
}

type acc struct {
	expr   ast.Expr
	write  bool
	atomic bool
	name   string
}

// collect gathers the shared locations mentioned by e (not descending into function
// literals or sync/atomic calls).
func (in *instr) collect(e ast.Node, write bool, out *[]acc) {
	if e == nil {
		return
	}
	ast.Inspect(e, func(n ast.Node) bool {
		switch x := n.(type) {
		case *ast.FuncLit:
			return false
		case *ast.CallExpr:
			if sel, ok := x.Fun.(*ast.SelectorExpr); ok {
				if id, ok := sel.X.(*ast.Ident); ok && id.Name == "atomic" {
					// atomics synchronise: no race check, but what they read is observed
					var sub []acc
					for _, a := range x.Args {
						in.collect(a, false, &sub)
					}
					for i := range sub {
						sub[i].atomic = true
					}
					*out = append(*out, sub...)
					return false
				}
			}
		case *ast.SelectorExpr:
			if id, ok := x.X.(*ast.Ident); ok && in.receiver != "" && id.Name == in.receiver && in.fields[x.Sel.Name] {
				*out = append(*out, acc{expr: x, write: write, name: "field:" + x.Sel.Name})
				return false
			}
		case *ast.Ident:
			if in.pkgVars[x.Name] && x.Obj != nil && x.Obj.Kind == ast.Var {
				if _, isPkg := x.Obj.Decl.(*ast.ValueSpec); isPkg {
					*out = append(*out, acc{expr: x, write: write, name: "var:" + x.Name})
				}
			}
		}
		return true
	})
}

func (in *instr) accesses(st ast.Stmt) []acc {
	var out []acc
	switch s := st.(type) {
	case *ast.AssignStmt:
		for _, r := range s.Rhs {
			in.collect(r, false, &out)
		}
		for _, l := range s.Lhs {
			if s.Tok != token.ASSIGN && s.Tok != token.DEFINE {
				in.collect(l, false, &out) // op-assignment reads as well
			}
			in.collect(l, true, &out)
		}
	case *ast.IncDecStmt:
		in.collect(s.X, false, &out)
		in.collect(s.X, true, &out)
	case *ast.ExprStmt:
		in.collect(s.X, false, &out)
	case *ast.ReturnStmt:
		for _, r := range s.Results {
			in.collect(r, false, &out)
		}
	case *ast.IfStmt:
		if s.Init != nil {
			out = append(out, in.accesses(s.Init)...)
		}
		in.collect(s.Cond, false, &out)
	case *ast.ForStmt:
		if s.Init != nil {
			out = append(out, in.accesses(s.Init)...)
		}
		in.collect(s.Cond, false, &out)
	case *ast.SwitchStmt:
		if s.Init != nil {
			out = append(out, in.accesses(s.Init)...)
		}
		in.collect(s.Tag, false, &out)
	case *ast.RangeStmt:
		in.collect(s.X, false, &out)
	case *ast.DeclStmt:
		in.collect(s.Decl, false, &out)
	case *ast.GoStmt:
		in.collect(s.Call, false, &out)
	case *ast.SendStmt:
		in.collect(s.Chan, false, &out)
		in.collect(s.Value, false, &out)
	}
	return out
}

func (in *instr) list(list []ast.Stmt) []ast.Stmt {
	var out []ast.Stmt
	for _, st := range list {
		if !isSyncPoint(st) {
			out = append(out, call("Yield"))
			for _, a := range in.accesses(st) {
				w := "false"
				if a.write {
					w = "true"
				}
				id := &ast.BasicLit{Kind: token.INT, Value: strconv.Itoa(in.id(a.name))}
				if a.atomic {
					out = append(out, call("AccessAtomic", &ast.UnaryExpr{Op: token.AND, X: a.expr}, id))
				} else {
					out = append(out, call("Access", &ast.UnaryExpr{Op: token.AND, X: a.expr}, ast.NewIdent(w), id))
				}
			}
		}
		out = append(out, st)
	}
	return out
}

func isMutexType(e ast.Expr) bool {
	if st, ok := e.(*ast.StarExpr); ok {
		e = st.X
	}
	if sel, ok := e.(*ast.SelectorExpr); ok {
		if id, ok := sel.X.(*ast.Ident); ok && id.Name == "sync" {
			return true
		}
	}
	return false
}

func main() {
	inPath, outPath := os.Args[1], os.Args[2]
	fset := token.NewFileSet()
	f, err := parser.ParseFile(fset, inPath, nil, 0)
	if err != nil {
		fmt.Fprintln(os.Stderr, err)
		os.Exit(2)
	}
	found := false
	for _, im := range f.Imports {
		if p, _ := strconv.Unquote(im.Path.Value); p == "sync" {
			im.Path.Value = strconv.Quote(shim)
			im.Name = ast.NewIdent("sync")
			found = true
		}
	}
	if !found {
		f.Decls = append([]ast.Decl{&ast.GenDecl{Tok: token.IMPORT, Specs: []ast.Spec{
			&ast.ImportSpec{Name: ast.NewIdent("sync"), Path: &ast.BasicLit{Kind: token.STRING, Value: strconv.Quote(shim)}},
		}}}, f.Decls...)
	}
	in := &instr{fields: map[string]bool{}, pkgVars: map[string]bool{}, ids: map[string]int{}}
	for _, d := range f.Decls {
		gd, ok := d.(*ast.GenDecl)
		if !ok {
			continue
		}
		for _, sp := range gd.Specs {
			switch s := sp.(type) {
			case *ast.TypeSpec:
				if st, ok := s.Type.(*ast.StructType); ok {
					for _, fl := range st.Fields.List {
						if isMutexType(fl.Type) {
							continue
						}
						for _, n := range fl.Names {
							in.fields[n.Name] = true
						}
					}
				}
			case *ast.ValueSpec:
				if gd.Tok == token.VAR {
					for _, n := range s.Names {
						if n.Name != "_" && !isMutexType(s.Type) {
							in.pkgVars[n.Name] = true
						}
					}
				}
			}
		}
	}
	for _, d := range f.Decls {
		fd, ok := d.(*ast.FuncDecl)
		if !ok || fd.Body == nil {
			continue
		}
		in.receiver = ""
		if fd.Recv != nil && len(fd.Recv.List) == 1 && len(fd.Recv.List[0].Names) == 1 {
			in.receiver = fd.Recv.List[0].Names[0].Name
		}
		ast.Inspect(fd.Body, func(n ast.Node) bool {
			switch b := n.(type) {
			case *ast.BlockStmt:
				b.List = in.list(b.List)
			case *ast.CaseClause:
				b.Body = in.list(b.Body)
			case *ast.CommClause:
				b.Body = in.list(b.Body)
			}
			return true
		})
	}
	w, err := os.Create(outPath)
	if err != nil {
		fmt.Fprintln(os.Stderr, err)
		os.Exit(2)
	}
	defer w.Close()
	f.Comments = nil // positions no longer match after insertion
	if err := printer.Fprint(w, token.NewFileSet(), f); err != nil {
		fmt.Fprintln(os.Stderr, err)
		os.Exit(2)
	}
}
