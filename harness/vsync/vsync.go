// Package verifsync is overlaid into github.com/pion/rtp in place of "sync" for schedule
// exploration: a cooperative scheduler in which exactly one harness thread runs at a
// time, every Lock/RLock/Yield is a scheduling point, and a vector-clock
// happens-before oracle watches the instrumented accesses.
//
// Outside a controlled execution (no Run in progress) the types behave like plain,
// single-threaded locks so that the same instrumented code can also run sequentially.
package verifsync

import (
	"fmt"
	realsync "sync"
	"unsafe"
)

// Pass-through types so that instrumented files that use them still compile.
type (
	WaitGroup = realsync.WaitGroup
	Map       = realsync.Map
	Pool      = realsync.Pool
	Locker    = realsync.Locker
)

// Chooser answers scheduling decisions (implemented by the explorer).
type Chooser interface{ Pick(n int) int }

type vclock []int

func (v vclock) join(o vclock) {
	for i := range o {
		if o[i] > v[i] {
			v[i] = o[i]
		}
	}
}

type thread struct {
	id       int
	resume   chan struct{}
	yielded  chan struct{}
	done     bool
	blocked  func() bool // nil when runnable
	panicVal interface{}
	vc       vclock
	steps    int    // scheduling points passed
	obs      uint64 // hash of every shared value this thread has read (its view of memory)
	class    int    // threads of one class run the same program (symmetry reduction of the state key)
	held     uint64 // which locks the thread holds (order independent)
	marks    uint64 // hash of the events the thread itself has reported (its results so far)
}

type threadAbort struct{}

type access struct {
	thread, clock int
}

type location struct {
	lastWrite access
	hasWrite  bool
	reads     []access
	id        int
	ptr       unsafe.Pointer
	size      uintptr
}

// Race is one pair of conflicting accesses not ordered by happens-before.
type Race struct {
	Addr          uintptr
	First, Second string
}

// Sched is one controlled execution.
type Sched struct {
	threads     []*thread
	cur         *thread
	Steps       int
	Preemptions int
	Bound       int // max preemptions, <0 = unbounded
	Schedule    []int
	Deadlock    bool
	Contended   int
	Races       []Race
	Panics      []string
	locs        map[uintptr]*location
	// state-revisit pruning (sound only for unbounded exploration)
	Visited   map[uint64]struct{}
	Pruned    bool
	hist      uint64
	completed uint64
	aborting  bool
	mutexes   []*Mutex
	rwmutexes []*RWMutex
}

var active *Sched

// Clock returns the logical time of the active execution.
func Clock() int {
	if active == nil {
		return 0
	}
	return active.Steps
}

func (s *Sched) point(t *thread) {
	t.steps++
	t.yielded <- struct{}{}
	<-t.resume
	if s.aborting {
		panic(threadAbort{})
	}
}

func fnv(h uint64, b ...byte) uint64 {
	if h == 0 {
		h = 14695981039346656037
	}
	for _, x := range b {
		h ^= uint64(x)
		h *= 1099511628211
	}
	return h
}

func fnvU(h, v uint64) uint64 {
	return fnv(h, byte(v), byte(v>>8), byte(v>>16), byte(v>>24), byte(v>>32), byte(v>>40), byte(v>>48), byte(v>>56))
}

// MarkCall / MarkReturn report the call and the return (with its result) of one harness
// operation. The linearizability oracle depends on the past only through the results and
// through which operations had returned before which were called, so the state key folds
// in, at every call, the (unordered) set of operations completed by then.
func MarkCall() {
	s := active
	if s == nil || s.cur == nil {
		return
	}
	s.hist = fnvU(fnvU(s.hist, uint64(s.cur.class)+1), s.completed)
	s.cur.marks = fnvU(s.cur.marks, 1)
}

func MarkReturn(result uint64) {
	s := active
	if s == nil || s.cur == nil {
		return
	}
	s.completed += fnvU(fnvU(3, uint64(s.cur.class)+1), result) // commutative
	s.cur.marks = fnvU(s.cur.marks, 2+result<<2)
}

// Yield is a preemption point.
func Yield() {
	s := active
	if s == nil || s.cur == nil {
		return
	}
	s.point(s.cur)
}

// Access reports a read or write of a shared location to the happens-before oracle; id is
// the static identity of the location (field index in the instrumented file).
func Access[T any](p *T, write bool, id int) {
	s := active
	if s == nil || s.cur == nil {
		return
	}
	l := s.access(uintptr(unsafe.Pointer(p)), write)
	l.id, l.ptr, l.size = id, unsafe.Pointer(p), unsafe.Sizeof(*p)
	if !write {
		s.observe(l)
	}
}

// AccessAtomic reports an access through sync/atomic: no race check, but the value is
// part of what the thread has seen.
func AccessAtomic[T any](p *T, id int) {
	s := active
	if s == nil || s.cur == nil {
		return
	}
	addr := uintptr(unsafe.Pointer(p))
	l := s.locs[addr]
	if l == nil {
		l = &location{}
		s.locs[addr] = l
	}
	l.id, l.ptr, l.size = id, unsafe.Pointer(p), unsafe.Sizeof(*p)
	s.observe(l)
}

func (s *Sched) observe(l *location) {
	t := s.cur
	t.obs = fnvU(t.obs, uint64(l.id)+1)
	t.obs = fnv(t.obs, unsafe.Slice((*byte)(l.ptr), l.size)...)
}

func (s *Sched) access(addr uintptr, write bool) *location {
	t := s.cur
	l := s.locs[addr]
	if l == nil {
		l = &location{}
		s.locs[addr] = l
	}
	kind := "read"
	if write {
		kind = "write"
	}
	me := fmt.Sprintf("%s by thread %d at step %d", kind, t.id, s.Steps)
	if l.hasWrite && l.lastWrite.thread != t.id && l.lastWrite.clock > t.vc[l.lastWrite.thread] {
		s.Races = append(s.Races, Race{addr, fmt.Sprintf("write by thread %d", l.lastWrite.thread), me})
	}
	if write {
		for _, r := range l.reads {
			if r.thread != t.id && r.clock > t.vc[r.thread] {
				s.Races = append(s.Races, Race{addr, fmt.Sprintf("read by thread %d", r.thread), me})
			}
		}
		l.lastWrite, l.hasWrite = access{t.id, t.vc[t.id]}, true
		l.reads = l.reads[:0]
		return l
	}
	for i := range l.reads {
		if l.reads[i].thread == t.id {
			l.reads[i].clock = t.vc[t.id]
			return l
		}
	}
	l.reads = append(l.reads, access{t.id, t.vc[t.id]})
	return l
}

// Mutex is the controlled replacement for sync.Mutex.
type Mutex struct {
	held  bool
	vc    vclock
	owner int // thread id + 1 while held inside a controlled execution
	reg   *Sched
}

func (m *Mutex) register(s *Sched) {
	if m.reg != s {
		m.reg = s
		s.mutexes = append(s.mutexes, m)
	}
}

func (m *Mutex) bit(s *Sched) uint64 {
	m.register(s)
	for i, x := range s.mutexes {
		if x == m {
			return fnvU(7, uint64(i)+1)
		}
	}
	return 0
}

// Lock acquires m; a scheduling point before the acquisition.
func (m *Mutex) Lock() {
	s := active
	if s == nil || s.cur == nil {
		if m.held {
			panic("verifsync: Lock of a held mutex outside a controlled execution (self-deadlock)")
		}
		m.held = true
		return
	}
	t := s.cur
	m.register(s)
	if m.held {
		s.Contended++
	}
	t.blocked = func() bool { return m.held }
	s.point(t) // resumed only when m is free
	t.blocked = nil
	if m.held {
		panic("verifsync: scheduler resumed a thread on a held mutex")
	}
	m.held, m.owner = true, t.id+1
	t.held ^= m.bit(s)
	if m.vc != nil {
		t.vc.join(m.vc)
	}
}

// TryLock acquires m if it is free.
func (m *Mutex) TryLock() bool {
	Yield()
	if m.held {
		return false
	}
	m.held = true
	if s := active; s != nil && s.cur != nil && m.vc != nil {
		s.cur.vc.join(m.vc)
	}
	return true
}

// Unlock releases m.
func (m *Mutex) Unlock() {
	if !m.held {
		panic("sync: unlock of unlocked mutex")
	}
	m.held, m.owner = false, 0
	if s := active; s != nil && s.cur != nil {
		t := s.cur
		t.held ^= m.bit(s)
		m.vc = append(m.vc[:0], t.vc...)
		t.vc[t.id]++
	}
}

// Once is the controlled replacement for sync.Once: the function runs under a controlled mutex,
// so that a thread which arrives while another one is inside it blocks visibly to the scheduler
// (the real sync.Once would block the goroutine behind the scheduler's back as soon as the
// function contains a scheduling point). It orders at least as much as the real one.
type Once struct {
	m    Mutex
	done bool
}

// Do calls f if and only if Do is being called for the first time for this instance of Once.
func (o *Once) Do(f func()) {
	o.m.Lock()
	defer o.m.Unlock()
	if !o.done {
		defer func() { o.done = true }()
		f()
	}
}

// RWMutex is the controlled replacement for sync.RWMutex.
type RWMutex struct {
	writer  bool
	readers int
	wvc     vclock // released by writers
	rvc     vclock // released by readers
	reg     *Sched
}

func (m *RWMutex) register(s *Sched) {
	if m.reg != s {
		m.reg = s
		s.rwmutexes = append(s.rwmutexes, m)
	}
}

func (m *RWMutex) bit(s *Sched, write bool) uint64 {
	m.register(s)
	for i, x := range s.rwmutexes {
		if x == m {
			if write {
				return fnvU(11, uint64(i)+1)
			}
			return fnvU(13, uint64(i)+1)
		}
	}
	return 0
}

// Lock acquires the write lock.
func (m *RWMutex) Lock() {
	s := active
	if s == nil || s.cur == nil {
		if m.writer || m.readers > 0 {
			panic("verifsync: Lock of a held RWMutex outside a controlled execution")
		}
		m.writer = true
		return
	}
	t := s.cur
	m.register(s)
	if m.writer || m.readers > 0 {
		s.Contended++
	}
	t.blocked = func() bool { return m.writer || m.readers > 0 }
	s.point(t)
	t.blocked = nil
	m.writer = true
	t.held ^= m.bit(s, true)
	if m.wvc != nil {
		t.vc.join(m.wvc)
	}
	if m.rvc != nil {
		t.vc.join(m.rvc)
	}
}

// Unlock releases the write lock.
func (m *RWMutex) Unlock() {
	if !m.writer {
		panic("sync: Unlock of unlocked RWMutex")
	}
	m.writer = false
	if s := active; s != nil && s.cur != nil {
		t := s.cur
		t.held ^= m.bit(s, true)
		m.wvc = append(m.wvc[:0], t.vc...)
		t.vc[t.id]++
	}
}

// RLock acquires a read lock.
func (m *RWMutex) RLock() {
	s := active
	if s == nil || s.cur == nil {
		if m.writer {
			panic("verifsync: RLock of a write-held RWMutex outside a controlled execution")
		}
		m.readers++
		return
	}
	t := s.cur
	m.register(s)
	if m.writer {
		s.Contended++
	}
	t.blocked = func() bool { return m.writer }
	s.point(t)
	t.blocked = nil
	m.readers++
	t.held += m.bit(s, false) // additive: a thread may hold several read locks
	if m.wvc != nil {
		t.vc.join(m.wvc)
	}
}

// RUnlock releases a read lock.
func (m *RWMutex) RUnlock() {
	if m.readers <= 0 {
		panic("sync: RUnlock of unlocked RWMutex")
	}
	m.readers--
	if s := active; s != nil && s.cur != nil {
		t := s.cur
		t.held -= m.bit(s, false)
		if m.rvc == nil {
			m.rvc = make(vclock, len(t.vc))
		}
		m.rvc.join(t.vc)
		t.vc[t.id]++
	}
}

// key identifies the program state at a scheduling decision: per thread how far it is and
// everything it has read so far (its local state is a function of both), the current
// value of every shared location, who holds which mutex, and the order of operation calls
// and returns so far (which the linearizability oracle depends on).
func (s *Sched) key() uint64 {
	h := fnvU(fnvU(0, s.hist), s.completed)
	// thread signatures, sorted inside each class: threads that run the same program are
	// interchangeable (the harness and the oracles are symmetric in them)
	sigs := make([][2]uint64, 0, len(s.threads))
	for _, t := range s.threads {
		d := uint64(0)
		if t.done {
			d = 1
		}
		sig := fnvU(fnvU(fnvU(fnvU(fnvU(0, uint64(t.steps)), t.obs), d), t.held), t.marks)
		sigs = append(sigs, [2]uint64{uint64(t.class), sig})
	}
	for i := 1; i < len(sigs); i++ {
		for j := i; j > 0 && (sigs[j][0] < sigs[j-1][0] || (sigs[j][0] == sigs[j-1][0] && sigs[j][1] < sigs[j-1][1])); j-- {
			sigs[j], sigs[j-1] = sigs[j-1], sigs[j]
		}
	}
	for _, x := range sigs {
		h = fnvU(fnvU(h, x[0]), x[1])
	}
	// locations in the order of their static ids
	type lv struct {
		id int
		l  *location
	}
	var ls []lv
	for _, l := range s.locs {
		if l.ptr != nil {
			ls = append(ls, lv{l.id, l})
		}
	}
	for i := 1; i < len(ls); i++ {
		for j := i; j > 0 && ls[j].id < ls[j-1].id; j-- {
			ls[j], ls[j-1] = ls[j-1], ls[j]
		}
	}
	for _, x := range ls {
		h = fnvU(h, uint64(x.id)+1)
		h = fnv(h, unsafe.Slice((*byte)(x.l.ptr), x.l.size)...)
	}
	for i, m := range s.mutexes {
		o := uint64(0)
		if m.held {
			o = 1
		}
		h = fnvU(fnvU(h, uint64(i)+1000), o) // who holds it is in the holder's signature
	}
	for i, m := range s.rwmutexes {
		w := uint64(0)
		if m.writer {
			w = 1
		}
		h = fnvU(fnvU(fnvU(h, uint64(i)+2000), w), uint64(m.readers))
	}
	return h
}

// kill unwinds every thread that has not finished (used when an execution is cut short).
func (s *Sched) kill() {
	s.aborting = true
	for _, t := range s.threads {
		if !t.done {
			s.cur = t
			t.resume <- struct{}{}
			<-t.yielded
		}
	}
	s.cur = nil
}

func (s *Sched) enabled() []*thread {
	var out []*thread
	ok := func(t *thread) bool { return !t.done && (t.blocked == nil || !t.blocked()) }
	if c := s.cur; c != nil && ok(c) {
		out = append(out, c)
	}
	for _, t := range s.threads {
		if t != s.cur && ok(t) {
			out = append(out, t)
		}
	}
	return out
}

// Run executes bodies as controlled threads; ch decides every scheduling choice.
// maxSteps bounds the length of one execution (a guard against spinning code).
func Run(ch Chooser, bound, maxSteps int, visited map[uint64]struct{}, classes []int, bodies []func()) *Sched {
	s := &Sched{Bound: bound, locs: map[uintptr]*location{}, Visited: visited}
	active = s
	defer func() { active = nil }()
	for i, b := range bodies {
		t := &thread{id: i, resume: make(chan struct{}), yielded: make(chan struct{}), vc: make(vclock, len(bodies))}
		t.vc[i] = 1
		if classes != nil {
			t.class = classes[i]
		} else {
			t.class = i
		}
		s.threads = append(s.threads, t)
		go func(t *thread, b func()) {
			<-t.resume
			defer func() {
				if r := recover(); r != nil {
					if _, ok := r.(threadAbort); !ok {
						t.panicVal = r
					}
				}
				t.done = true
				t.yielded <- struct{}{}
			}()
			b()
		}(t, b)
	}
	// prologue: run every thread to its first scheduling point without a choice (the code
	// before it is thread-local in every harness).
	for _, t := range s.threads {
		s.cur = t
		t.resume <- struct{}{}
		<-t.yielded
	}
	s.cur = nil
	for {
		en := s.enabled()
		if len(en) == 0 {
			for _, t := range s.threads {
				if !t.done {
					s.Deadlock = true
				}
			}
			break
		}
		if s.Steps >= maxSteps {
			s.Deadlock = true // livelock guard: reported like a deadlock
			break
		}
		runningEnabled := s.cur != nil && en[0] == s.cur
		n := len(en)
		if runningEnabled && s.Bound >= 0 && s.Preemptions >= s.Bound {
			n = 1
		}
		c := 0
		if n > 1 {
			if s.Visited != nil {
				if nn, ok := ch.(interface{ NewNode() bool }); ok && nn.NewNode() {
					k := s.key()
					if _, seen := s.Visited[k]; seen {
						s.Pruned = true
						s.kill()
						return s
					}
					s.Visited[k] = struct{}{}
				}
			}
			c = ch.Pick(n)
		}
		if runningEnabled && c != 0 {
			s.Preemptions++
		}
		t := en[c]
		s.Schedule = append(s.Schedule, t.id)
		s.cur = t
		s.Steps++
		t.resume <- struct{}{}
		<-t.yielded
	}
	s.cur = nil
	for _, t := range s.threads {
		if t.panicVal != nil {
			s.Panics = append(s.Panics, fmt.Sprintf("thread %d: %v", t.id, t.panicVal))
		}
	}
	if s.Deadlock {
		s.kill() // unwind the threads that are still parked
	}
	return s
}
