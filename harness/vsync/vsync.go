// Package verifsync is overlaid into github.com/pion/rtp in place of "sync" for schedule
// exploration: a cooperative scheduler in which exactly one harness thread runs at a
// time, every Lock/RLock/Yield is a scheduling point, and a vector-clock
// happens-before oracle watches the instrumented accesses.
//
// Outside a controlled execution (no Run in progress) the types behave like plain,
// single-threaded locks so that the same instrumented code can also run sequentially.
package verifsync

import (
	"fmt"
	realsync "sync"
	"unsafe"
)

// Pass-through types so that instrumented files that use them still compile.
type (
	Once      = realsync.Once
	WaitGroup = realsync.WaitGroup
	Map       = realsync.Map
	Pool      = realsync.Pool
	Locker    = realsync.Locker
)

// Chooser answers scheduling decisions (implemented by the explorer).
type Chooser interface{ Pick(n int) int }

type vclock []int

func (v vclock) join(o vclock) {
	for i := range o {
		if o[i] > v[i] {
			v[i] = o[i]
		}
	}
}

type thread struct {
	id       int
	resume   chan struct{}
	yielded  chan struct{}
	done     bool
	blocked  func() bool // nil when runnable
	panicVal interface{}
	vc       vclock
}

type access struct {
	thread, clock int
}

type location struct {
	lastWrite access
	hasWrite  bool
	reads     []access
}

// Race is one pair of conflicting accesses not ordered by happens-before.
type Race struct {
	Addr          uintptr
	First, Second string
}

// Sched is one controlled execution.
type Sched struct {
	threads     []*thread
	cur         *thread
	Steps       int
	Preemptions int
	Bound       int // max preemptions, <0 = unbounded
	Schedule    []int
	Deadlock    bool
	Contended   int
	Races       []Race
	Panics      []string
	locs        map[uintptr]*location
}

var active *Sched

// Clock returns the logical time of the active execution.
func Clock() int {
	if active == nil {
		return 0
	}
	return active.Steps
}

func (s *Sched) point(t *thread) {
	t.yielded <- struct{}{}
	<-t.resume
}

// Yield is a preemption point.
func Yield() {
	s := active
	if s == nil || s.cur == nil {
		return
	}
	s.point(s.cur)
}

// Access reports a read or write of a shared location to the happens-before oracle.
func Access[T any](p *T, write bool) {
	s := active
	if s == nil || s.cur == nil {
		return
	}
	s.access(uintptr(unsafe.Pointer(p)), write)
}

func (s *Sched) access(addr uintptr, write bool) {
	t := s.cur
	l := s.locs[addr]
	if l == nil {
		l = &location{}
		s.locs[addr] = l
	}
	kind := "read"
	if write {
		kind = "write"
	}
	me := fmt.Sprintf("%s by thread %d at step %d", kind, t.id, s.Steps)
	if l.hasWrite && l.lastWrite.thread != t.id && l.lastWrite.clock > t.vc[l.lastWrite.thread] {
		s.Races = append(s.Races, Race{addr, fmt.Sprintf("write by thread %d", l.lastWrite.thread), me})
	}
	if write {
		for _, r := range l.reads {
			if r.thread != t.id && r.clock > t.vc[r.thread] {
				s.Races = append(s.Races, Race{addr, fmt.Sprintf("read by thread %d", r.thread), me})
			}
		}
		l.lastWrite, l.hasWrite = access{t.id, t.vc[t.id]}, true
		l.reads = l.reads[:0]
		return
	}
	for i := range l.reads {
		if l.reads[i].thread == t.id {
			l.reads[i].clock = t.vc[t.id]
			return
		}
	}
	l.reads = append(l.reads, access{t.id, t.vc[t.id]})
}

// Mutex is the controlled replacement for sync.Mutex.
type Mutex struct {
	held bool
	vc   vclock
}

// Lock acquires m; a scheduling point before the acquisition.
func (m *Mutex) Lock() {
	s := active
	if s == nil || s.cur == nil {
		if m.held {
			panic("verifsync: Lock of a held mutex outside a controlled execution (self-deadlock)")
		}
		m.held = true
		return
	}
	t := s.cur
	if m.held {
		s.Contended++
	}
	t.blocked = func() bool { return m.held }
	s.point(t) // resumed only when m is free
	t.blocked = nil
	if m.held {
		panic("verifsync: scheduler resumed a thread on a held mutex")
	}
	m.held = true
	if m.vc != nil {
		t.vc.join(m.vc)
	}
}

// TryLock acquires m if it is free.
func (m *Mutex) TryLock() bool {
	Yield()
	if m.held {
		return false
	}
	m.held = true
	if s := active; s != nil && s.cur != nil && m.vc != nil {
		s.cur.vc.join(m.vc)
	}
	return true
}

// Unlock releases m.
func (m *Mutex) Unlock() {
	if !m.held {
		panic("sync: unlock of unlocked mutex")
	}
	m.held = false
	if s := active; s != nil && s.cur != nil {
		t := s.cur
		m.vc = append(m.vc[:0], t.vc...)
		t.vc[t.id]++
	}
}

// RWMutex is the controlled replacement for sync.RWMutex.
type RWMutex struct {
	writer  bool
	readers int
	wvc     vclock // released by writers
	rvc     vclock // released by readers
}

// Lock acquires the write lock.
func (m *RWMutex) Lock() {
	s := active
	if s == nil || s.cur == nil {
		if m.writer || m.readers > 0 {
			panic("verifsync: Lock of a held RWMutex outside a controlled execution")
		}
		m.writer = true
		return
	}
	t := s.cur
	if m.writer || m.readers > 0 {
		s.Contended++
	}
	t.blocked = func() bool { return m.writer || m.readers > 0 }
	s.point(t)
	t.blocked = nil
	m.writer = true
	if m.wvc != nil {
		t.vc.join(m.wvc)
	}
	if m.rvc != nil {
		t.vc.join(m.rvc)
	}
}

// Unlock releases the write lock.
func (m *RWMutex) Unlock() {
	if !m.writer {
		panic("sync: Unlock of unlocked RWMutex")
	}
	m.writer = false
	if s := active; s != nil && s.cur != nil {
		t := s.cur
		m.wvc = append(m.wvc[:0], t.vc...)
		t.vc[t.id]++
	}
}

// RLock acquires a read lock.
func (m *RWMutex) RLock() {
	s := active
	if s == nil || s.cur == nil {
		if m.writer {
			panic("verifsync: RLock of a write-held RWMutex outside a controlled execution")
		}
		m.readers++
		return
	}
	t := s.cur
	if m.writer {
		s.Contended++
	}
	t.blocked = func() bool { return m.writer }
	s.point(t)
	t.blocked = nil
	m.readers++
	if m.wvc != nil {
		t.vc.join(m.wvc)
	}
}

// RUnlock releases a read lock.
func (m *RWMutex) RUnlock() {
	if m.readers <= 0 {
		panic("sync: RUnlock of unlocked RWMutex")
	}
	m.readers--
	if s := active; s != nil && s.cur != nil {
		t := s.cur
		if m.rvc == nil {
			m.rvc = make(vclock, len(t.vc))
		}
		m.rvc.join(t.vc)
		t.vc[t.id]++
	}
}

func (s *Sched) enabled() []*thread {
	var out []*thread
	ok := func(t *thread) bool { return !t.done && (t.blocked == nil || !t.blocked()) }
	if c := s.cur; c != nil && ok(c) {
		out = append(out, c)
	}
	for _, t := range s.threads {
		if t != s.cur && ok(t) {
			out = append(out, t)
		}
	}
	return out
}

// Run executes bodies as controlled threads; ch decides every scheduling choice.
// maxSteps bounds the length of one execution (a guard against spinning code).
func Run(ch Chooser, bound, maxSteps int, bodies []func()) *Sched {
	s := &Sched{Bound: bound, locs: map[uintptr]*location{}}
	active = s
	defer func() { active = nil }()
	for i, b := range bodies {
		t := &thread{id: i, resume: make(chan struct{}), yielded: make(chan struct{}), vc: make(vclock, len(bodies))}
		t.vc[i] = 1
		s.threads = append(s.threads, t)
		go func(t *thread, b func()) {
			<-t.resume
			defer func() {
				if r := recover(); r != nil {
					t.panicVal = r
				}
				t.done = true
				t.yielded <- struct{}{}
			}()
			b()
		}(t, b)
	}
	// prologue: run every thread to its first scheduling point without a choice (the code
	// before it is thread-local in every harness).
	for _, t := range s.threads {
		s.cur = t
		t.resume <- struct{}{}
		<-t.yielded
	}
	s.cur = nil
	for {
		en := s.enabled()
		if len(en) == 0 {
			for _, t := range s.threads {
				if !t.done {
					s.Deadlock = true
				}
			}
			break
		}
		if s.Steps >= maxSteps {
			s.Deadlock = true // livelock guard: reported like a deadlock
			break
		}
		runningEnabled := s.cur != nil && en[0] == s.cur
		n := len(en)
		if runningEnabled && s.Bound >= 0 && s.Preemptions >= s.Bound {
			n = 1
		}
		c := 0
		if n > 1 {
			c = ch.Pick(n)
		}
		if runningEnabled && c != 0 {
			s.Preemptions++
		}
		t := en[c]
		s.Schedule = append(s.Schedule, t.id)
		s.cur = t
		s.Steps++
		t.resume <- struct{}{}
		<-t.yielded
	}
	s.cur = nil
	for _, t := range s.threads {
		if t.panicVal != nil {
			s.Panics = append(s.Panics, fmt.Sprintf("thread %d: %v", t.id, t.panicVal))
		}
	}
	if s.Deadlock {
		// release the goroutines that are still parked so that they do not leak: they stay
		// blocked on their resume channel forever otherwise. They are abandoned here; the
		// explorer stops at the first violation, so the leak is bounded.
	}
	return s
}
